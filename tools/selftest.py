#!/usr/bin/env python3
"""Self-test of the trusted base (no repository code involved): reference models against brute-force definitions."""
import itertools, random, sys
from fractions import Fraction as F
sys.path.insert(0, "/verif")
from vmon import gen
from vmon.refmodel import (ref_bounds, ref_shapley_perm, ref_shapley_subset, is_superadditive_exact, members, popcount,
                           minimal_masks, ref_normalize, ref_gap_exploitability)

def set_partitions(items):
    if not items:
        yield []
        return
    first, rest = items[0], items[1:]
    for part in set_partitions(rest):
        for i in range(len(part)):
            yield part[:i] + [[first] + part[i]] + part[i + 1:]
        yield [[first]] + part

rng = random.Random(0)
n_ok = 0
for trial in range(300):
    n = rng.choice([3, 4])
    v, exact = gen.sa_game(rng, n, rng.choice(gen.EXACT_SA_FAMILIES))
    assert is_superadditive_exact(n, [F(x) for x in v]) is None, "generator produced a non-superadditive game"
    K = gen.random_knowledge_set(rng, n)
    kd = {m: F(v[m]) for m in K}
    lo, up = ref_bounds(n, kd)
    for s in range(1, 1 << n):
        if s in kd:
            continue
        best = max(sum(kd[sum(1 << p for p in blk)] for blk in part) for part in set_partitions(members(s))
                   if all(sum(1 << p for p in blk) in kd for blk in part))
        assert lo[s] == best, (n, K, s, lo[s], best)
        assert lo[s] <= F(v[s]) <= up[s]
    n_ok += 1
print("ref_lower == brute-force best partition into known coalitions on", n_ok, "cases; truth inside reference bounds")
for n in range(1, 7):
    v = [F(0)] + [F(rng.randint(-9, 9)) for _ in range((1 << n) - 1)]
    assert ref_shapley_perm(n, v) == ref_shapley_subset(n, v)
print("subset formula == orderings definition for n = 1..6")
for n in (3, 4):
    w = gen.euler_walk(n, random.Random(n))
    cur, edges = frozenset(), set()
    for m in w:
        nxt = cur ^ {m}
        edges.add((cur, nxt))
        cur = nxt
    d = len(gen.explorable(n))
    assert cur == frozenset() and len(edges) == len(w) == d * 2 ** d
print("closed lattice walks traverse every directed edge exactly once (n = 3: 24, n = 4: 10240)")
for fam in gen.SAM_FAMILIES:
    for _ in range(30):
        n = rng.choice([3, 4, 5])
        v, exact = gen.sam_game(rng, n, fam)
        if exact:
            assert is_superadditive_exact(n, [F(x) for x in v]) is None
        assert all(v[b ^ (1 << i)] >= v[b] for b in range(1 << n) for i in members(b))
print("SAM generator families are superadditive and monotone non-increasing")
print("SELFTEST OK")

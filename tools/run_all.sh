#!/bin/bash
# run every check of one tier sequentially; print one line per check. usage: tools/run_all.sh [quick|thorough] [ids...]
cd "$(dirname "$0")/.."
tier="${1:-quick}"; shift
ids=("$@"); [ ${#ids[@]} -eq 0 ] && ids=(C01 C02 C03 C04 C05 C06 C07 C08 C09 C10 C11 C12 C13 C14 C15 C16 C17 C18 C19 C20)
fail=0
for id in "${ids[@]}"; do
  s=$(date +%s)
  out=$(./check "$id" --tier "$tier" 2>&1); rc=$?
  e=$(( $(date +%s) - s ))
  echo "[$id rc=$rc ${e}s] $(echo "$out" | grep -v '^KNOWN-FINDING' | tail -1)"
  echo "$out" | grep -E '^(VIOLATION|INCONCLUSIVE|KNOWN-FINDING)' | head -5
  [ $rc -ne 0 ] && fail=1
done
exit $fail

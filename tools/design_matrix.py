#!/usr/bin/env python3
"""Insert the compact detection matrix (from seeded/*/meta.json final_run) into DESIGN.md between the markers."""
import glob, json, os, re
rows = []
def key(d):
    n = os.path.basename(d.rstrip("/")); a, b = n.split("-"); return (a, int(b))
for d in sorted(glob.glob("/verif/seeded/*/"), key=key):
    m = json.load(open(d + "meta.json"))
    fr = m.get("final_run", {})
    rb = m.get("robustness_seed5", {})
    caught = "; ".join(f"{c} ({', '.join(v['mechanisms'][:2])})" for c, v in fr.get("checks", {}).items() if v["exit"] == 1) or "**not caught**"
    own = m["property"] in fr.get("caught_by", [])
    own5 = m["property"] in rb.get("caught_by", []) if rb else None
    rows.append(f"| {os.path.basename(d.rstrip('/'))} | {'yes' if own else 'NO'} | {'yes' if own5 else ('NO' if own5 is not None else '-')} | {caught} |")
n_all = len(rows)
n_own = sum(1 for r in rows if r.split('|')[2].strip() == 'yes')
n_own5 = sum(1 for r in rows if r.split('|')[3].strip() == 'yes')
table = (f"{n_all} changes; caught by the check of their own property: {n_own} with VERIF_SEED=0, {n_own5} with VERIF_SEED=5 "
         f"(what each change is and what it needs to manifest: `seeded/MATRIX.md`).\n\n"
         "| change | own check, seed 0 | own check, seed 5 | caught by (first mechanisms reported) |\n|---|---|---|---|\n" + "\n".join(rows) + "\n")
s = open("/verif/DESIGN.md").read()
if "@@MATRIX@@" in s:
    s = s.replace("@@MATRIX@@", "<!-- matrix:begin -->\n" + table + "<!-- matrix:end -->")
else:
    s = re.sub(r"<!-- matrix:begin -->.*<!-- matrix:end -->", lambda _: "<!-- matrix:begin -->\n" + table + "<!-- matrix:end -->", s, flags=re.S)
open("/verif/DESIGN.md", "w").write(s)
print(n_all, n_own, n_own5)

#!/usr/bin/env python3
"""Apply one textual mutation (or a patch file) to a scratch copy of the tree and run checks against it.
usage: mut.py [--patch FILE | FILE OLD NEW] -- C01 C02 ...   (env VERIF_TIER, VERIF_BUDGET_SCALE honoured)
Exit code 0 if at least one of the checks reported a VIOLATION (mutant killed)."""
import os, shutil, subprocess, sys, tempfile
args = sys.argv[1:]
i = args.index("--")
spec, checks = args[:i], args[i + 1:]
tmp = tempfile.mkdtemp(prefix="vmut-", dir="/tmp")
try:
    dst = os.path.join(tmp, "repo")
    shutil.copytree("/repo", dst, ignore=shutil.ignore_patterns(".git", "__pycache__", "literature", "*.egg-info"))
    if spec[0] == "--patch":
        subprocess.check_call(["patch", "-p1", "-s", "-d", dst, "-i", os.path.abspath(spec[1])])
    else:
        f, old, new = spec
        p = os.path.join(dst, f)
        s = open(p).read()
        assert s.count(old) >= 1, f"pattern not found in {f}"
        open(p, "w").write(s.replace(old, new, 1))
    killed = False
    for c in checks:
        e = dict(os.environ, VERIF_REPO=dst, VERIF_EVIDENCE_DIR=tmp + "/evidence", VERIF_REPLAY_DIR=tmp + "/replays", VERIF_WORK_DIR=tmp + "/work")
        r = subprocess.run(["/verif/check", c, "--tier", os.environ.get("VERIF_TIER", "quick")], env=e, capture_output=True, text=True)
        lines = [l for l in r.stdout.splitlines() if l.strip()]
        v = [l for l in lines if l.startswith("VIOLATION")]
        mech = sorted({l.split(":")[0].strip() for l in lines if l.strip().startswith("mechanism=")})
        print(f"{c}: exit={r.returncode} violations_printed={len(v)} {mech[:6]} :: {lines[-1] if lines else r.stderr[-300:]}")
        if r.returncode == 1 and v:
            killed = True
        if r.returncode == 2:
            print("   ", "\n    ".join(lines[:3]))
    print("KILLED" if killed else "SURVIVED")
    sys.exit(0 if killed else 1)
finally:
    shutil.rmtree(tmp, ignore_errors=True)

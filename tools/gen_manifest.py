#!/usr/bin/env python3
"""Regenerate MANIFEST.json from the per-property modules (RULE/LEVEL) and the table below."""
import importlib, json, os, subprocess, sys
sys.path.insert(0, "/repo"); sys.path.insert(0, "/verif/.deps"); sys.path.insert(0, "/verif")
ROOT = os.path.dirname(os.path.dirname(os.path.abspath(__file__)))
TECH = {
 "C01": "runtime oracle on observed compute_bounds() results vs the hidden game (containment), histories incl. all lattice edges",
 "C02": "runtime differential vs exact-rational optimum with per-instance attainment certificates + LP (HiGHS) cross-check",
 "C03": "runtime differential monitoring of the two real computers in one interpreter + cache fingerprinting",
 "C04": "runtime oracle on twin objects (repetition counts, SA twin) vs hidden SAM game and ordering inequalities",
 "C05": "runtime differential of compute_exploitability vs exact-rational closed forms; observed domination on real Shapley entry point",
 "C06": "runtime differential of the Shapley entry points vs the n!-orderings definition in exact rationals + derived laws",
 "C07": "trace monitor over reveal/un-reveal edges of the knowledge lattice (monotonicity of tables and real gap functions)",
 "C08": "history-vs-fresh-object differential monitor (bit-identical tables), idempotence, env step/unstep fingerprints",
 "C09": "shadow reference model of the env driven by recorded actions and a recording generator",
 "C10": "runtime inspection of every registry generator's output; cross-interpreter determinism check",
 "C11": "offline checker over worker event logs (exactly-once, order, value correctness) across worker counts; brute-force optimum",
 "C12": "offline checker over worker event logs: per-column trajectory replay against reference; cross-worker-count comparison",
 "C13": "contract on Solver.next_step (env fingerprint before/after), recorded probes, rule oracle on reference rewards; brute force for expected-greedy",
 "C14": "invariant monitor after every regret_min_iteration at every node + float64 reference + save/load twin",
 "C15": "runtime differential of normalize/denormalize vs exact-rational normalisation in three regimes",
 "C16": "shadow bookkeeping monitor around every linear-env call via the inner env's public getters",
 "C17": "dictionary reference model compared through all public getters after every operation + icontract class invariant",
 "C18": "runtime differential vs frozenset semantics (both implementations) and brute-force predicate definitions",
 "C19": "history monitor over data.json (bytes + parsed) with audit hook; call-site capture for the commands",
 "C20": "fault injection: sys.monitoring LINE failpoints in forked children (kill/interrupt) + strace syscall injection; post-mortem file oracle",
}
SECTION = {f"C{i:02d}": f"DESIGN.md section 4, C{i:02d}" for i in range(1, 21)}
checks = []
for i in range(1, 21):
    pid = f"C{i:02d}"
    mod = importlib.import_module(f"vmon.props.{pid.lower()}")
    level = getattr(mod, "LEVEL", "exploration")
    checks.append({
        "property_id": pid,
        "quick_cmd": f"./check {pid} --tier quick",
        "thorough_cmd": f"./check {pid} --tier thorough",
        "evidence_file": f"/verif/evidence/{pid}.json",
        "replay_cmd_template": f"./check {pid} --replay {{path}}",
        "engine": "vmon",
        "level_claimed": {
            "category": level,
            "text": ("Runtime monitoring: the real code of the working tree is executed on generated workloads and an oracle "
                     "observes every execution. Held = no violation on the executions counted in the evidence file; nothing is "
                     "proved. " + mod.RULE),
            "design_ref": SECTION[pid],
        },
        "level_note": ("Trusted base: CPython 3.12 (/venv), numpy/scipy, vmon/refmodel.py (exact-rational reference models, no "
                       "repository imports), the generators in vmon/gen.py. Assurance is limited to the executions listed in "
                       "the evidence file; sub-spaces that are enumerated completely are named in the rule and counted separately."),
        "technique": TECH[pid],
    })
manifest = {
    "version": 1,
    "setup_cmd": "./setup.sh",
    "hooks": {
        "guard": "FURADNIK_INCOMPLETECOOPERATIVE_VERIF",
        "enable": ("no source hooks: all instrumentation is attached from /verif at run time (icontract invariants, functools.wraps "
                   "wrappers around module-level worker functions, sys.monitoring failpoints, audit hooks); ./check sets the guard "
                   "variable for its child interpreters, the repository never reads it"),
        "baseline_off_cmd": "cd /repo && env -u FURADNIK_INCOMPLETECOOPERATIVE_VERIF /venv/bin/python -m pytest -ra -q -p no:cacheprovider --timeout=900 --continue-on-collection-errors --junitxml=/tmp/baseline_off.junit.xml",
        "source_commits": [],
        "add_only": True,
    },
    "engines": [{"name": "vmon", "path": "/verif/vmon", "serves_properties": [c["property_id"] for c in checks],
                 "kind_free_text": "runtime monitors: contracts, shadow reference models, offline log checkers, fault injection"}],
    "checks": checks,
    "not_applicable": [],
    "notes": ("Exit codes of every check: 0 held on everything observed (KNOWN-FINDING lines allowed), 1 with a VIOLATION line, "
              "2 INCONCLUSIVE (deciding monitor not reached / tree does not import / shard watchdog). Genuine defects repaired by "
              "fix: commits in /repo and the one unrepaired finding are listed in KNOWN_FINDINGS.txt. VERIF_SEED and VERIF_TIER are "
              "honoured; VERIF_REPO selects another tree (used for the seeded changes under /verif/seeded)."),
}
json.dump(manifest, open(os.path.join(ROOT, "MANIFEST.json"), "w"), indent=1)
print("wrote MANIFEST.json with", len(checks), "checks")

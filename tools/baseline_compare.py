#!/usr/bin/env python3
"""Compare a junit xml of the repository's suite with the stable_pass list of /root/.vp/BASELINE.json.
usage: baseline_compare.py run.xml     exit 0 iff every stable_pass test passed."""
import json, sys
import xml.etree.ElementTree as ET
base = json.load(open("/root/.vp/BASELINE.json"))
stable = set(base["stable_pass"])
passed, failed = set(), set()
for tc in ET.parse(sys.argv[1]).getroot().iter("testcase"):
    tid = f"{tc.get('classname')}::{tc.get('name')}"
    bad = any(ch.tag in ("failure", "error", "skipped") for ch in tc)
    (failed if bad else passed).add(tid)
passed -= failed
missing = sorted(stable - passed)
print(f"stable_pass={len(stable)} passed_now={len(passed)} failed_or_skipped_now={len(failed)} stable_missing={len(missing)}")
for m in missing[:40]:
    print("  MISSING", m)
sys.exit(1 if missing else 0)

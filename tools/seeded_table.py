#!/usr/bin/env python3
"""Print a markdown table of /verif/seeded/*/meta.json (used for DESIGN.md section 11.6)."""
import glob, json, os
rows = []
for d in sorted(glob.glob("/verif/seeded/*/")):
    m = json.load(open(os.path.join(d, "meta.json")))
    name = os.path.basename(d.rstrip("/"))
    first = (m.get("summary") or m.get("needs_to_manifest", "").strip().splitlines()[0] if m.get("needs_to_manifest") else "")[:160]
    caught = ", ".join(f"{c} ({'/'.join(v['mechanisms'][:3])})" for c, v in m["checks"].items() if v["exit"] == 1) or "—"
    missed = ", ".join(c for c, v in m["checks"].items() if v["exit"] != 1)
    rows.append(f"| {name} | {m['property']} | {m.get('summary', first)} | {caught} | {missed or '—'} |")
print("| change | property | what it needs to manifest | caught by (mechanisms) | not caught by |")
print("|---|---|---|---|---|")
print("\n".join(rows))

#!/usr/bin/env python3
"""Merge seeded/SUMMARIES.json (hand-written one-line descriptions) into the meta.json of every kept change."""
import json, os
S = json.load(open("/verif/seeded/SUMMARIES.json"))
for name, extra in S.items():
    p = f"/verif/seeded/{name}/meta.json"
    if os.path.exists(p):
        m = json.load(open(p))
        m.update(extra)
        json.dump(m, open(p, "w"), indent=1)
        print("merged", name)
    else:
        print("missing", name)

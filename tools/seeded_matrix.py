#!/usr/bin/env python3
"""Run the CURRENT checks against every kept seeded change and record the result.

usage: seeded_matrix.py [--tier quick] [--jobs 3] [names...]
For each /verif/seeded/<name>/: scratch copy of /repo + patch.diff, run the check of the target property (and the
other checks listed in meta.json 'also_checks'), store the outcome under meta.json['final_run'] and write
/verif/seeded/MATRIX.md. Nothing is applied to /repo."""
import argparse, concurrent.futures, glob, json, os, shutil, subprocess, sys, tempfile, time

ap = argparse.ArgumentParser()
ap.add_argument("--tier", default="quick")
ap.add_argument("--jobs", type=int, default=3)
ap.add_argument("--key", default="final_run", help="meta.json key to store the result under (MATRIX.md is written for final_run only)")
ap.add_argument("names", nargs="*")
a = ap.parse_args()


def one(d):
    name = os.path.basename(d.rstrip("/"))
    meta = json.load(open(os.path.join(d, "meta.json")))
    checks = [meta["property"]] + [c for c in meta.get("also_checks", []) if c != meta["property"]]
    tmp = tempfile.mkdtemp(prefix="vmat-", dir="/tmp")
    out = {}
    try:
        tree = os.path.join(tmp, "repo")
        shutil.copytree("/repo", tree, ignore=shutil.ignore_patterns(".git", "__pycache__", "literature", "*.egg-info", "performance"))
        subprocess.check_call(["patch", "-p1", "-s", "-d", tree, "-i", os.path.join(d, "patch.diff")])
        for c in checks:
            e = dict(os.environ, VERIF_REPO=tree, VERIF_EVIDENCE_DIR=tmp + "/ev", VERIF_REPLAY_DIR=tmp + "/rp", VERIF_WORK_DIR=tmp + "/wk")
            r = subprocess.run(["/verif/check", c, "--tier", a.tier], env=e, capture_output=True, text=True)
            mech = sorted({l.strip().split(":")[0].replace("mechanism=", "") for l in r.stdout.splitlines() if l.strip().startswith("mechanism=")})
            out[c] = {"exit": r.returncode, "mechanisms": mech}
    finally:
        shutil.rmtree(tmp, ignore_errors=True)
    meta[a.key] = {"tier": a.tier, "seed": os.environ.get("VERIF_SEED", "0"), "verif_commit": subprocess.run(["git", "-C", "/verif", "rev-parse", "--short", "HEAD"], capture_output=True, text=True).stdout.strip(),
                         "checks": out, "caught_by": [c for c, v in out.items() if v["exit"] == 1]}
    json.dump(meta, open(os.path.join(d, "meta.json"), "w"), indent=1)
    return name, meta


dirs = sorted(glob.glob("/verif/seeded/*/"))
if a.names:
    dirs = [d for d in dirs if os.path.basename(d.rstrip("/")) in a.names]
rows = []
with concurrent.futures.ThreadPoolExecutor(a.jobs) as ex:
    for name, meta in ex.map(one, dirs):
        fr = meta[a.key]
        print(name, "caught by", fr["caught_by"] or "NOTHING", flush=True)
if a.key != "final_run":
    sys.exit(0)
lines = ["| change | breaks | what it needs to manifest | caught by (quick tier; mechanisms) |", "|---|---|---|---|"]
for d in sorted(glob.glob("/verif/seeded/*/")):
    meta = json.load(open(os.path.join(d, "meta.json")))
    fr = meta.get("final_run")
    if not fr:
        continue
    caught = "; ".join(f"{c}: {', '.join(v['mechanisms'][:4])}" for c, v in fr["checks"].items() if v["exit"] == 1) or "**not caught**"
    lines.append(f"| {os.path.basename(d.rstrip('/'))} | {meta['property']} | {meta.get('summary', '')} | {caught} |")
open("/verif/seeded/MATRIX.md", "w").write("\n".join(lines) + "\n")
print("wrote /verif/seeded/MATRIX.md")

#!/usr/bin/env python3
"""Confirm and evaluate one candidate breaking change.

usage: seed_eval.py <property id> <patch.diff> <demo.py> [--suite] [--checks C01,C02] [--tier quick] [--keep NAME]

Steps (all on a scratch copy of /repo under /tmp, removed at the end; /repo is never touched):
  1. the patch applies to a clean copy of /repo's HEAD working tree;
  2. the demo exits 0 on the clean copy and non-zero on the patched copy;
  3. (--suite) the repository's pinned test command on the patched copy passes every stable_pass test of BASELINE.json;
  4. the listed checks (default: the property's own) are run against the patched copy (VERIF_REPO) and their verdicts printed.
With --keep NAME and everything confirmed, the change is stored as /verif/seeded/NAME/{patch.diff, demo.py, meta.json}.
"""
import argparse
import json
import os
import shutil
import subprocess
import sys
import tempfile
import time

ap = argparse.ArgumentParser()
ap.add_argument("pid")
ap.add_argument("patch")
ap.add_argument("demo")
ap.add_argument("--suite", action="store_true")
ap.add_argument("--checks")
ap.add_argument("--tier", default="quick")
ap.add_argument("--keep")
ap.add_argument("--notes")
a = ap.parse_args()

tmp = tempfile.mkdtemp(prefix="vseed-", dir="/tmp")
res = {"property": a.pid, "patch": os.path.abspath(a.patch)}
try:
    clean, patched = os.path.join(tmp, "clean"), os.path.join(tmp, "patched")
    ign = shutil.ignore_patterns(".git", "__pycache__", "literature", "*.egg-info", "performance")
    shutil.copytree("/repo", clean, ignore=ign)
    shutil.copytree("/repo", patched, ignore=ign)
    r = subprocess.run(["patch", "-p1", "-s", "-d", patched, "-i", os.path.abspath(a.patch)], capture_output=True, text=True)
    res["applies"] = r.returncode == 0
    if r.returncode != 0:
        print("PATCH DOES NOT APPLY:", r.stdout[-500:], r.stderr[-500:])
        sys.exit(2)

    def demo(tree):
        shutil.copy(a.demo, os.path.join(tree, "_demo.py"))
        e = dict(os.environ, PYTHONPATH=tree, PYTHONDONTWRITEBYTECODE="1", MPLBACKEND="Agg")
        t0 = time.time()
        r = subprocess.run(["/venv/bin/python", "_demo.py"], cwd=tree, env=e, capture_output=True, text=True, timeout=1800)
        os.unlink(os.path.join(tree, "_demo.py"))
        return r.returncode, (r.stdout + r.stderr)[-600:], time.time() - t0
    rc_clean, out_clean, t1 = demo(clean)
    rc_pat, out_pat, t2 = demo(patched)
    res["demo_clean_exit"], res["demo_patched_exit"] = rc_clean, rc_pat
    print(f"demo: clean exit={rc_clean} ({t1:.0f}s), patched exit={rc_pat} ({t2:.0f}s)")
    if rc_clean != 0:
        print("  clean output:", out_clean)
    print("  patched output:", out_pat.strip()[-300:])
    if a.suite:
        xml = os.path.join(tmp, "junit.xml")
        e = dict(os.environ, PYTHONPATH=patched, PYTHONDONTWRITEBYTECODE="1", MPLBACKEND="Agg", OMP_NUM_THREADS="1", MKL_NUM_THREADS="1", OPENBLAS_NUM_THREADS="1")
        e.pop("FURADNIK_INCOMPLETECOOPERATIVE_VERIF", None)
        t0 = time.time()
        r = subprocess.run(["/venv/bin/python", "-m", "pytest", "-ra", "-q", "-p", "no:cacheprovider", "--timeout=900",
                            "--continue-on-collection-errors", f"--junitxml={xml}"], cwd=patched, env=e, capture_output=True, text=True)
        c = subprocess.run(["python3", "/verif/tools/baseline_compare.py", xml], capture_output=True, text=True)
        res["suite_ok"] = c.returncode == 0
        res["suite_summary"] = c.stdout.strip().splitlines()[0] if c.stdout else ""
        print(f"suite ({time.time() - t0:.0f}s): {c.stdout.strip()[:600]}")
        if not res["suite_ok"]:
            # re-run the missing stable tests on their own (the learning tests are sensitive to load / thread count)
            missing = [l.split("MISSING", 1)[1].strip() for l in c.stdout.splitlines() if "MISSING" in l]
            nodes = []
            for m in missing:
                left, _, name = m.partition("::")
                parts = left.split(".")
                for cut in range(len(parts), 0, -1):
                    f = os.path.join(patched, *parts[:cut]) + ".py"
                    if os.path.exists(f):
                        nodes.append("::".join([os.path.join(*parts[:cut]) + ".py"] + parts[cut:] + [name]))
                        break
            if nodes and len(nodes) <= 10:
                e2 = dict(e)
                for k in ("OMP_NUM_THREADS", "MKL_NUM_THREADS", "OPENBLAS_NUM_THREADS"):
                    e2.pop(k, None)
                ok = False
                for attempt in range(2):
                    r2 = subprocess.run(["/venv/bin/python", "-m", "pytest", "-q", "-p", "no:cacheprovider", "--timeout=900", *nodes],
                                        cwd=patched, env=e2, capture_output=True, text=True)
                    if r2.returncode == 0:
                        ok = True
                        break
                print(f"re-run of {len(nodes)} missing stable test(s) on the patched tree: {'pass' if ok else 'FAIL'}")
                if ok:
                    res["suite_ok"] = True
                    res["suite_summary"] += f"; {len(nodes)} test(s) missing in the full run passed when re-run alone: {nodes}"
    checks = (a.checks.split(",") if a.checks else [a.pid])
    res["checks"] = {}
    for c in checks:
        e = dict(os.environ, VERIF_REPO=patched, VERIF_EVIDENCE_DIR=tmp + "/evidence", VERIF_REPLAY_DIR=tmp + "/replays",
                 VERIF_WORK_DIR=tmp + "/work")
        t0 = time.time()
        r = subprocess.run(["/verif/check", c, "--tier", a.tier], env=e, capture_output=True, text=True)
        lines = [l for l in r.stdout.splitlines() if l.strip()]
        mech = sorted({l.strip().split(":")[0].replace("mechanism=", "") for l in lines if l.strip().startswith("mechanism=")})
        res["checks"][c] = {"exit": r.returncode, "mechanisms": mech, "seconds": round(time.time() - t0)}
        print(f"check {c} [{a.tier}]: exit={r.returncode} mechanisms={mech} ({time.time() - t0:.0f}s)")
        if r.returncode == 2:
            print("   ", "\n    ".join(lines[:4]))
    caught = [c for c, v in res["checks"].items() if v["exit"] == 1]
    res["caught_by"] = caught
    confirmed = res["applies"] and rc_clean == 0 and rc_pat != 0 and (res.get("suite_ok", True))
    print("CONFIRMED" if confirmed else "NOT CONFIRMED", "| caught by:", caught or "NOTHING")
    if a.keep and confirmed:
        d = os.path.join("/verif/seeded", a.keep)
        os.makedirs(d, exist_ok=True)
        shutil.copy(a.patch, os.path.join(d, "patch.diff"))
        shutil.copy(a.demo, os.path.join(d, "demo.py"))
        notes = open(a.notes).read() if a.notes and os.path.exists(a.notes) else ""
        meta = {"property": a.pid, "needs_to_manifest": notes, "source": "independent sub-agent given only the property text and a scratch worktree",
                "confirmed": {"patch_applies_to_clean_tree": True, "demo_exit_clean": rc_clean, "demo_exit_patched": rc_pat,
                              "existing_suite_stable_pass_all_passing": res.get("suite_ok"), "suite_summary": res.get("suite_summary")},
                "what_i_ran": [f"tools/seed_eval.py {a.pid} patch.diff demo.py" + (" --suite" if a.suite else "") + f" --checks {','.join(checks)} --tier {a.tier}"],
                "checks": res["checks"], "caught_by": caught}
        json.dump(meta, open(os.path.join(d, "meta.json"), "w"), indent=1)
        print("kept as", d)
finally:
    shutil.rmtree(tmp, ignore_errors=True)

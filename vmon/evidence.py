"""Run context: coverage accounting, verdicts (three-valued), replay files, evidence writer."""
from __future__ import annotations

import hashlib
import json
import math
import os
import re
import time
from fractions import Fraction
from pathlib import Path

from . import env

MAX_SAMPLES = 6
MAX_REPLAYS_PER_MECHANISM = 3


def jsonable(o):
    """Convert numpy / Fraction / set containers into plain JSON values."""
    try:
        import numpy as np
    except Exception:  # pragma: no cover
        np = None
    if isinstance(o, dict):
        return {str(k): jsonable(v) for k, v in o.items()}
    if isinstance(o, (list, tuple)):
        return [jsonable(v) for v in o]
    if isinstance(o, (set, frozenset)):
        return sorted(jsonable(v) for v in o)
    if isinstance(o, Fraction):
        return float(o) if o.denominator != 1 else int(o)
    if np is not None:
        if isinstance(o, np.ndarray):
            return jsonable(o.tolist())
        if isinstance(o, np.generic):
            return jsonable(o.item())
    if isinstance(o, float):
        if math.isnan(o):
            return "NaN"
        if math.isinf(o):
            return "Infinity" if o > 0 else "-Infinity"
        return o
    if isinstance(o, (str, int, bool)) or o is None:
        return o
    if isinstance(o, Path):
        return str(o)
    return repr(o)


def case_hash(obj) -> str:
    return hashlib.sha256(json.dumps(jsonable(obj), sort_keys=True).encode()).hexdigest()[:16]


def load_known_findings() -> tuple[set[tuple[str, str]], dict[tuple[str, str], str], list[str]]:
    """Parse KNOWN_FINDINGS.txt: known (property, key) pairs with their text; fixed lines (suppress nothing)."""
    known: set[tuple[str, str]] = set()
    text: dict[tuple[str, str], str] = {}
    fixed: list[str] = []
    if env.KNOWN_FINDINGS.exists():
        for line in env.KNOWN_FINDINGS.read_text().splitlines():
            line = line.strip()
            if line.startswith("known:"):
                m = re.match(r"known:\s+property=(\S+)\s+key=(\S+)\s*(.*)", line)
                if m:
                    known.add((m.group(1), m.group(2)))
                    text[(m.group(1), m.group(2))] = m.group(3)
            elif line.startswith("fixed:"):
                fixed.append(line)
    return known, text, fixed


class Ctx:
    """What a property module talks to while it runs."""

    def __init__(self, pid: str, tier: str, seed: int, shard: int = 0, nshards: int = 1,
                 budget_s: float = 60.0, replay_mode: bool = False) -> None:
        self.pid, self.tier, self.seed, self.shard, self.nshards = pid, tier, seed, shard, nshards
        self.budget_s = budget_s
        self.t0 = time.monotonic()
        self.replay_mode = replay_mode
        self.evaluations = 0
        self.distinct: set[str] = set()
        self.samples: list = []
        self.counters: dict[str, int] = {}
        self.sets: dict[str, set] = {}
        self.violations: list[dict] = []        # {"mechanism", "message", "replay"}
        self.n_violations = 0
        self.known_hits: dict[str, int] = {}
        self.inconclusive: list[str] = []
        self._replays_written: dict[str, int] = {}
        self.known, self.known_text, self.fixed = load_known_findings()
        import random
        self.rng, self.nprng = env.rngs(pid, shard)
        self.pyrandom = random

    # ---- budget ------------------------------------------------------------------------------
    def elapsed(self) -> float:
        return time.monotonic() - self.t0

    def time_left(self) -> float:
        return self.budget_s - self.elapsed()

    def out_of_time(self, reserve: float = 0.0) -> bool:
        return self.time_left() <= reserve

    # ---- coverage ----------------------------------------------------------------------------
    def case(self, key, nontrivial: bool, sample=None) -> None:
        self.evaluations += 1
        if nontrivial:
            self.distinct.add(key if isinstance(key, str) and len(key) == 16 else case_hash(key))
        if sample is not None and len(self.samples) < MAX_SAMPLES:
            self.samples.append(jsonable(sample))

    def count(self, name: str, k: int = 1) -> None:
        self.counters[name] = self.counters.get(name, 0) + k

    def seen(self, name: str, item) -> None:
        """Record a distinct item under a named set (reported as a count `distinct_<name>`)."""
        self.sets.setdefault(name, set()).add(item if isinstance(item, (str, int)) else case_hash(item))

    # ---- verdicts ----------------------------------------------------------------------------
    def violation(self, mechanism: str, message: str, case: dict | None = None) -> None:
        """Record a violation. `mechanism` classifies *how* it fails (never random values)."""
        if (self.pid, mechanism) in self.known:
            self.known_hits[mechanism] = self.known_hits.get(mechanism, 0) + 1
            return
        replay = None
        if isinstance(case, dict):
            case = {k: v for k, v in case.items() if not str(k).startswith("_")}
        n = self._replays_written.get(mechanism, 0)
        if case is not None and n < MAX_REPLAYS_PER_MECHANISM and not self.replay_mode:
            d = env.REPLAY_DIR / self.pid
            d.mkdir(parents=True, exist_ok=True)
            body = {"property": self.pid, "mechanism": mechanism, "message": message, "seed": self.seed,
                    "tier": self.tier, "case": jsonable(case)}
            replay = d / f"{case_hash(body)}.json"
            replay.write_text(json.dumps(body, indent=1))
            self._replays_written[mechanism] = n + 1
        self.n_violations += 1
        if replay is not None or len(self.violations) < 50:
            self.violations.append({"mechanism": mechanism, "message": message[:2000],
                                    "replay": str(replay) if replay else None})

    def mark_inconclusive(self, reason: str) -> None:
        self.inconclusive.append(reason)

    # ---- shard transport ---------------------------------------------------------------------
    def to_partial(self) -> dict:
        return {"evaluations": self.evaluations, "distinct": sorted(self.distinct), "samples": self.samples,
                "counters": self.counters, "sets": {k: sorted(map(str, v)) for k, v in self.sets.items()},
                "violations": self.violations, "n_violations": self.n_violations, "known_hits": self.known_hits,
                "inconclusive": self.inconclusive, "wall_s": self.elapsed()}

    def absorb(self, p: dict) -> None:
        self.evaluations += p["evaluations"]
        self.distinct.update(p["distinct"])
        for s in p["samples"]:
            if len(self.samples) < MAX_SAMPLES:
                self.samples.append(s)
        for k, v in p["counters"].items():
            self.counters[k] = self.counters.get(k, 0) + v
        for k, v in p["sets"].items():
            self.sets.setdefault(k, set()).update(v)
        self.violations.extend(p["violations"])
        self.n_violations += p.get("n_violations", len(p["violations"]))
        for k, v in p["known_hits"].items():
            self.known_hits[k] = self.known_hits.get(k, 0) + v
        self.inconclusive.extend(p["inconclusive"])


def finish(ctx: Ctx, module, wall_s: float) -> int:
    """Write the evidence file, print verdict lines, return the exit code."""
    required = getattr(module, "REQUIRED", [])
    for name in required:
        if ctx.counters.get(name, len(ctx.sets.get(name, ()))) <= 0:
            ctx.mark_inconclusive(f"deciding monitor counter '{name}' is zero")
    if ctx.evaluations == 0:
        ctx.mark_inconclusive("no case was evaluated")

    coverage = {
        "evaluations": ctx.evaluations,
        "distinct_nontrivial": len(ctx.distinct),
        "rule": getattr(module, "RULE", ""),
        "samples": ctx.samples if ctx.samples else [],
        "exhaustive": False,
        "counters": dict(sorted(ctx.counters.items())),
        "shards": ctx.nshards,
    }
    for k, v in ctx.sets.items():
        coverage[f"distinct_{k}"] = len(v)
    coverage["known_findings_observed"] = ctx.known_hits
    coverage["inconclusive_reasons"] = ctx.inconclusive[:20]
    coverage["violation_mechanisms"] = sorted({v["mechanism"] for v in ctx.violations})
    ev = {
        "property_id": ctx.pid,
        "tier": ctx.tier,
        "seed": ctx.seed,
        "level": getattr(module, "LEVEL", "exploration"),
        "coverage": coverage,
        "assumptions": list(getattr(module, "ASSUMPTIONS", [])) + [
            "CPython 3.12 /venv, numpy, scipy as installed; vmon/refmodel.py is the trusted reference",
            "assurance is limited to the executions counted here (runtime monitoring, nothing is proved)",
        ],
        "wall_s": round(wall_s, 3),
        "violations": ctx.n_violations,
        "verdict": "violated" if ctx.violations else ("inconclusive" if ctx.inconclusive else "held"),
        "tree": str(env.REPO),
    }
    env.EVIDENCE_DIR.mkdir(parents=True, exist_ok=True)
    out = env.EVIDENCE_DIR / f"{ctx.pid}.json"
    text = json.dumps(jsonable(ev), indent=1)
    try:
        import jsonschema
        schema = json.loads(env.EVIDENCE_SCHEMA.read_text()) if env.EVIDENCE_SCHEMA.exists() else None
        if schema is not None and not ctx.inconclusive:
            jsonschema.validate(json.loads(text), schema)
    except ImportError:
        pass
    except Exception as exc:  # schema violation: report, still write the file
        print(f"evidence for {ctx.pid} does not validate: {str(exc)[:300]}")
        ctx.mark_inconclusive("evidence file does not validate against the schema")
    tmp = out.with_suffix(".json.tmp")
    tmp.write_text(text)
    os.replace(tmp, out)

    for mech, cnt in sorted(ctx.known_hits.items()):
        print(f"KNOWN-FINDING: property={ctx.pid} {mech}: {ctx.known_text.get((ctx.pid, mech), '')} (observed {cnt}x)")
    if ctx.violations:
        shown = set()
        per_mech: dict[str, int] = {}
        for v in ctx.violations:
            key = (v["mechanism"], v["replay"])
            if v["replay"] is None or key in shown or per_mech.get(v["mechanism"], 0) >= 2 or len(shown) >= 12:
                continue
            shown.add(key)
            per_mech[v["mechanism"]] = per_mech.get(v["mechanism"], 0) + 1
            print(f"VIOLATION property={ctx.pid} replay={v['replay']}")
            print(f"  mechanism={v['mechanism']}: {v['message'][:400]}")
        if not shown:
            v = ctx.violations[0]
            print(f"VIOLATION property={ctx.pid} replay={v['replay']}")
            print(f"  mechanism={v['mechanism']}: {v['message'][:400]}")
        print(f"{ctx.pid}: VIOLATED — {ctx.n_violations} violation(s), {ctx.evaluations} evaluations, "
              f"{len(ctx.distinct)} distinct non-trivial, {wall_s:.1f}s")
        return 1
    if ctx.inconclusive:
        for r in ctx.inconclusive[:5]:
            print(f"INCONCLUSIVE property={ctx.pid} {r}")
        return 2
    print(f"{ctx.pid}: held on {ctx.evaluations} evaluations ({len(ctx.distinct)} distinct non-trivial), "
          f"tier={ctx.tier} seed={ctx.seed} shards={ctx.nshards} wall={wall_s:.1f}s")
    return 0

"""Locate the tree under test, seeds, tiers, paths. Imported first by every check."""
from __future__ import annotations

import os
import random
import sys
from pathlib import Path

ROOT = Path(__file__).resolve().parent.parent          # the /verif checkout this code runs from
REPO = Path(os.environ.get("VERIF_REPO", "/repo")).resolve()
GUARD = "FURADNIK_INCOMPLETECOOPERATIVE_VERIF"
PYTHON = "/venv/bin/python"

EVIDENCE_DIR = Path(os.environ.get("VERIF_EVIDENCE_DIR", ROOT / "evidence"))
REPLAY_DIR = Path(os.environ.get("VERIF_REPLAY_DIR", ROOT / "replays"))
WORK_DIR = Path(os.environ.get("VERIF_WORK_DIR", ROOT / ".work"))
KNOWN_FINDINGS = ROOT / "KNOWN_FINDINGS.txt"
EVIDENCE_SCHEMA = Path("/root/.vp/EVIDENCE.schema.json")


def seed() -> int:
    try:
        return int(os.environ.get("VERIF_SEED", "0"))
    except ValueError:
        return 0


def tier(default: str = "quick") -> str:
    t = os.environ.get("VERIF_TIER", default)
    return t if t in ("quick", "thorough") else default


def child_env(extra: dict | None = None) -> dict:
    """Environment for child interpreters: tree under test first, then our deps, then the framework."""
    e = dict(os.environ)
    e["PYTHONPATH"] = os.pathsep.join([str(REPO), str(ROOT / ".deps"), str(ROOT)])
    e["PYTHONDONTWRITEBYTECODE"] = "1"
    e["PYTHONHASHSEED"] = "0"
    e[GUARD] = "1"
    e["VERIF_REPO"] = str(REPO)
    e.setdefault("MPLBACKEND", "Agg")
    e.setdefault("OMP_NUM_THREADS", "1")
    e.setdefault("OPENBLAS_NUM_THREADS", "1")
    e.setdefault("MKL_NUM_THREADS", "1")
    if extra:
        e.update(extra)
    return e


def assert_tree() -> str | None:
    """Return an error string if the imported package is not the tree under test."""
    try:
        import incomplete_cooperative
    except Exception as exc:  # the tree does not import: inconclusive, not a violation
        return f"tree does not import: {exc!r}"
    f = Path(incomplete_cooperative.__file__).resolve()
    if REPO not in f.parents:
        return f"imported {f}, expected a module under {REPO}"
    return None


def rngs(*salt) -> tuple[random.Random, "object"]:
    import numpy as np
    s = hash_int(("vmon", seed()) + tuple(salt))
    return random.Random(s), np.random.default_rng(s % (2**63))


def hash_int(obj) -> int:
    import hashlib
    h = hashlib.sha256(repr(obj).encode()).digest()
    return int.from_bytes(h[:8], "big")


sys.dont_write_bytecode = True

"""Regimes of the normalisation oracle (shared by C09 and C15). No repository imports."""
from __future__ import annotations

from fractions import Fraction

from .refmodel import fr, ref_normalize

EPS = 2.0 ** -52


def regime(n: int, values):
    """Classify a game for the normalisation oracle.

    returns (kind, normalised exact values or None, tau):
      'regular'   : |surplus| is well above rounding noise; compare with the exact normalisation within tau
      'additive'  : surplus is 0 or a rounding residue (<= 64*eps*scale): the result must be identically ~0
      'band'      : a real but ulp-sized surplus, where no float algorithm can honour the range: inconclusive
    scale = sum |v(i)| + |v(N)|.
    """
    fv = [fr(x) for x in values]
    norm, surplus = ref_normalize(n, fv)
    scale = float(sum(abs(fv[1 << i]) for i in range(n)) + abs(fv[-1]))
    s = abs(float(surplus))
    if surplus == 0 or s <= 64 * EPS * scale:
        # "identically 0" up to rounding: when v(N) - sum v(i) is exactly 0 the library leaves the zero-normalised values
        # v(S) - sum_{i in S} v(i) undivided, and for a game that is additive only up to rounding these are residues of a
        # few ulp OF THE VALUES - the slack therefore scales with the magnitude of the game
        return "additive", None, 1e-9 * max(1.0, scale)
    tau = 1e-9 + 1e3 * EPS * scale / s
    if tau <= 1e-3:
        return "regular", norm, tau
    return "band", norm, tau

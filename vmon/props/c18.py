"""C18 — coalitions are finite sets in both representations; predicates match their definitions.

Monitor: the real Coalition operators / helper functions and the real id-array functions are called on every
coalition (n = 1..10) and every ordered pair (n <= 6) and compared with Python frozensets; the real predicates are
called on all small integer games and on boundary games and compared with brute-force textbook definitions.
"""
from __future__ import annotations

import numpy as np

from incomplete_cooperative import coalition_ids as cid
from incomplete_cooperative.coalitions import (Coalition, all_coalitions, disjoint_coalitions, exclude_coalition,
                                               get_known_coalitions, get_sub_coalitions, get_super_coalitions,
                                               grand_coalition, minimal_game_coalitions, player_to_coalition)
from incomplete_cooperative.functoolz import powerset
from incomplete_cooperative.game import IncompleteCooperativeGame
from incomplete_cooperative.game_properties import is_monotone_decreasing, is_sam, is_superadditive
from incomplete_cooperative.supermodularity_check import check_supermodularity

from ..refmodel import fmask, fset, members, popcount, submasks, supermasks

LEVEL = "exploration"
RULE = ("set part: case = coalition (all, n=1..10) or ordered pair (all, n<=6; sampled n=7..10): size, players, "
        "complement, membership (Python ints and coalitions), from_players, +/- player, union, intersection, "
        "difference, subset test, disjointness, exclude filter, sub-/super-coalition enumeration in the object-based and "
        "the id-array implementation, all compared with frozenset semantics and with each other; plus 3000 random coalitions and "
        "pairs over 11..30 players per shard for the per-coalition operations (no enumeration). predicate part: case = "
        "game: every integer game over {-1,0,1,2} with v(empty)=0 for n=2 (64) and n=3 (16384, exhaustive, sharded), "
        "random integer/float games n=4,5, and boundary games violating exactly one inequality by one unit / by half / "
        "by twice the documented tolerance (rtol 1e-9 for superadditivity, 1e-10 absolute for supermodularity); "
        "oracles are brute-force definitions; a reported supermodularity witness must really violate. Distinct = "
        "hash(case); non-trivial: always for sets; predicate cases split by expected answer in the counters.")
SHARDS = {"quick": 4, "thorough": 16}
BUDGET = {"quick": 45, "thorough": 360}
REQUIRED = ["coalitions_checked", "pairs_checked", "enumerations_compared", "predicate_games", "boundary_games", "large_id_coalitions",
            "expected_true", "expected_false"]


def ids(it):
    return sorted(c.id for c in it)


def check_coalition(ctx, n, m) -> None:
    """Guard: an exception raised by the library on a legal coalition is a violation, not a harness error."""
    try:
        _check_coalition_impl(ctx, n, m)
    except Exception as exc:
        ctx.violation("operation-raised", f"check_coalition(n, m = {(n, m,)}): {type(exc).__name__}: {exc}", {"kind": "coalition", "n": n, "mask": m})


def _check_coalition_impl(ctx, n, m) -> None:
    c = Coalition(m)
    s = fset(m)
    full = (1 << n) - 1
    case = {"kind": "coalition", "n": n, "mask": m}

    def bad(mech, msg):
        ctx.violation(mech, f"coalition {sorted(s)} (id {m}, n={n}): {msg}", case)
    ctx.count("coalitions_checked")
    if len(c) != len(s) or int(cid.get_size(m, n)) != len(s):
        bad("size-wrong", f"len {len(c)}, id-array size {cid.get_size(m, n)}, set size {len(s)}")
    if sorted(c.players) != sorted(s) or sorted(int(x) for x in cid.players(m, n)) != sorted(s):
        bad("players-wrong", f"players {list(c.players)}, id-array {cid.players(m, n).tolist()}")
    if Coalition.from_players(sorted(s)).id != m or Coalition.from_players(list(s) + list(s)).id != m:
        bad("from-players-wrong", "from_players(players) does not give the coalition back")
    if c.inverted(n).id != full ^ m:
        bad("complement-wrong", f"inverted -> {c.inverted(n).id}, expected {full ^ m}")
    for p in range(n):
        if (p in c) != (p in s):
            bad("membership-wrong", f"{p} in coalition -> {p in c}")
        if (c + p).id != fmask(s | {p}) or (c - p).id != fmask(s - {p}):
            bad("add-remove-player-wrong", f"+{p} -> {(c + p).id}, -{p} -> {(c - p).id}")
        if (c | p).id != fmask(s | {p}) or (c & p).id != fmask(s & {p}):
            bad("player-operator-wrong", f"| {p} -> {(c | p).id}, & {p} -> {(c & p).id}")
    if player_to_coalition(0).id != 1 or grand_coalition(n).id != full:
        bad("helper-wrong", "player_to_coalition / grand_coalition")
    # enumerations: object-based, id-array based, frozensets
    subs_obj = ids(get_sub_coalitions(c))
    subs_ids = sorted(int(x) for x in cid.sub_coalitions(m, n))
    want_sub = sorted(submasks(m))
    ctx.count("enumerations_compared", 2)
    if subs_obj != want_sub or subs_ids != want_sub:
        bad("sub-coalition-enumeration-wrong", f"object {subs_obj[:8]}.. ({len(subs_obj)}), ids {subs_ids[:8]}.. ({len(subs_ids)}), "
            f"expected {len(want_sub)} subsets")
    sup_obj = ids(get_super_coalitions(c, n))
    sup_ids = sorted(int(x) for x in cid.super_coalitions(m, n))
    want_sup = sorted(supermasks(m, n))
    if sup_obj != want_sup or sup_ids != want_sup:
        bad("super-coalition-enumeration-wrong", f"object {len(sup_obj)}, ids {len(sup_ids)}, expected {len(want_sup)} supersets")
    if len(set(subs_obj)) != len(subs_obj) or len(set(sup_ids)) != len(sup_ids):
        bad("enumeration-has-duplicates", "duplicate entries")
    ctx.case(("c", n, m), True, sample={"n": n, "coalition": sorted(s), "subsets": len(want_sub), "supersets": len(want_sup)} if m == 5 and n == 4 else None)


def check_pair(ctx, n, a, b) -> None:
    """Guard: an exception raised by the library on a legal coalition is a violation, not a harness error."""
    try:
        _check_pair_impl(ctx, n, a, b)
    except Exception as exc:
        ctx.violation("operation-raised", f"check_pair(n, a, b = {(n, a, b,)}): {type(exc).__name__}: {exc}", {"kind": "pair", "n": n, "a": a, "b": b})


def _check_pair_impl(ctx, n, a, b) -> None:
    A, B = Coalition(a), Coalition(b)
    sa, sb = fset(a), fset(b)
    case = {"kind": "pair", "n": n, "a": a, "b": b}
    ctx.count("pairs_checked")

    def bad(mech, msg):
        ctx.violation(mech, f"A={sorted(sa)}, B={sorted(sb)} (n={n}): {msg}", case)
    if (A | B).id != fmask(sa | sb):
        bad("union-wrong", f"A|B -> {(A | B).id}")
    if (A & B).id != fmask(sa & sb):
        bad("intersection-wrong", f"A&B -> {(A & B).id}")
    if (A - B).id != fmask(sa - sb):
        bad("difference-wrong", f"A-B -> {(A - B).id}")
    if (B in A) != (sb <= sa):
        bad("subset-test-wrong", f"B in A -> {B in A}")
    if (A == B) != (sa == sb) or (hash(A) == hash(B)) < (sa == sb):
        bad("equality-wrong", f"A == B -> {A == B}")
    if disjoint_coalitions(A, B) != sa.isdisjoint(sb):
        bad("disjointness-wrong", f"disjoint_coalitions -> {disjoint_coalitions(A, B)}")
    ctx.case(("p", n, a, b), True)


def check_large_one(ctx, n: int, a: int, b: int, p: int) -> None:
    """Guard: an exception raised by the library on a legal coalition is a violation, not a harness error."""
    try:
        _check_large_one_impl(ctx, n, a, b, p)
    except Exception as exc:
        ctx.violation("operation-raised", f"check_large_one(n, a, b, p = {(n, a, b, p,)}): {type(exc).__name__}: {exc}", {"kind": "large", "n": n, "a": a, "b": b, "p": p})


def _check_large_one_impl(ctx, n: int, a: int, b: int, p: int) -> None:
    """One pair of coalitions over up to 30 players (ids beyond 16 bits): per-coalition operations only."""
    A, B = Coalition(a), Coalition(b)
    sa, sb = fset(a), fset(b)
    case = {"kind": "large", "n": n, "a": a, "b": b, "p": p}
    ctx.count("large_id_coalitions")

    def bad(mech, msg):
        ctx.violation(mech, f"A={a:#x}, B={b:#x} (n={n}): {msg}", case)
    if len(A) != len(sa) or int(cid.get_size(a, n)) != len(sa):
        bad("size-wrong", f"len {len(A)}, id-array size {cid.get_size(a, n)}, set size {len(sa)}")
    if sorted(A.players) != sorted(sa) or sorted(int(x) for x in cid.players(a, n)) != sorted(sa):
        bad("players-wrong", "players differ from the bit positions")
    if Coalition.from_players(sorted(sa)).id != a:
        bad("from-players-wrong", "from_players(players) does not give the coalition back")
    if A.inverted(n).id != ((1 << n) - 1) ^ a:
        bad("complement-wrong", f"inverted -> {A.inverted(n).id:#x}")
    if (A | B).id != a | b or (A & B).id != a & b or (A - B).id != a & ~b:
        bad("union-wrong" if (A | B).id != a | b else "intersection-wrong" if (A & B).id != a & b else "difference-wrong", "operator result")
    if (B in A) != (sb <= sa) or disjoint_coalitions(A, B) != sa.isdisjoint(sb) or (A == B) != (a == b):
        bad("subset-test-wrong", "subset / disjointness / equality")
    if (p in A) != (p in sa) or (A + p).id != a | (1 << p) or (A - p).id != a & ~(1 << p):
        bad("membership-wrong", f"player {p}")
    ctx.case(("L", n, a, b), True)


def check_large_ids(ctx, rng, count: int) -> None:
    for _ in range(count):
        n = rng.randint(11, 30)
        a, b = rng.getrandbits(n), rng.getrandbits(n)
        if rng.random() < 0.3:
            a |= 1 << (n - 1)
        check_large_one(ctx, n, a, b, rng.randrange(n))


def check_collections(ctx, n) -> None:
    """Guard: an exception raised by the library on a legal coalition is a violation, not a harness error."""
    try:
        _check_collections_impl(ctx, n)
    except Exception as exc:
        ctx.violation("operation-raised", f"check_collections(n = {(n,)}): {type(exc).__name__}: {exc}", {"kind": "collections", "n": n})


def _check_collections_impl(ctx, n) -> None:
    case = {"kind": "collections", "n": n}
    if ids(all_coalitions(n)) != list(range(1 << n)) or [int(x) for x in cid.get_all_coalitions(n)] != list(range(1 << n)):
        ctx.violation("all-coalitions-wrong", f"all_coalitions({n})", case)
    want_min = sorted({0, (1 << n) - 1} | {1 << i for i in range(n)})
    if sorted(set(ids(minimal_game_coalitions(n)))) != want_min:
        ctx.violation("minimal-coalitions-wrong", f"minimal_game_coalitions({n}) -> {ids(minimal_game_coalitions(n))}", case)
    if sorted(map(sorted, powerset(list(range(min(n, 6)))))) != sorted(sorted(members(m)) for m in range(1 << min(n, 6))):
        ctx.violation("powerset-wrong", f"powerset(range({min(n, 6)}))", case)
    for ex in range(1 << min(n, 5)):
        got = ids(exclude_coalition(Coalition(ex), all_coalitions(n)))
        if got != [m for m in range(1 << n) if not m & ex]:
            ctx.violation("exclude-filter-wrong", f"exclude_coalition({ex}) over n={n}", case)
            break
    g = IncompleteCooperativeGame(n)
    kn = [m for m in range(1 << n) if m % 3 == 0]
    for m in kn:
        g.set_value(1.0, Coalition(m))
    if ids(get_known_coalitions(g)) != kn:
        ctx.violation("known-coalitions-wrong", f"get_known_coalitions -> {ids(get_known_coalitions(g))[:8]}", case)
    ctx.case(("coll", n), True)


# ---- predicates ------------------------------------------------------------------------------------

def def_superadditive(n, v, rtol=1e-9):
    for u in range(1 << n):
        for s in submasks(u):
            lhs, rhs = v[s] + v[u ^ s], v[u]
            if not (lhs <= rhs or abs(lhs - rhs) <= rtol * abs(rhs)):
                return False
    return True


def def_monotone_nonincreasing(n, v):
    for u in range(1 << n):
        for s in submasks(u):
            if not v[s] >= v[u]:
                return False
    return True


def supermodular_violations(n, v, tol):
    out = []
    for t in range(1 << n):
        for i in range(n):
            if t >> i & 1:
                continue
            rhs = v[t | 1 << i] - v[t]
            for s in submasks(t):
                if s != t and v[s | 1 << i] - v[s] > rhs + tol:
                    out.append((t, s, i))
    return out


def check_predicates(ctx, n, v, family, margin_ok=True) -> None:
    g = IncompleteCooperativeGame(n)
    g.set_values(np.array(v, dtype=np.float64))
    case = {"kind": "predicate", "n": n, "values": list(v), "family": family}
    ctx.count("predicate_games")
    try:
        got_sa, got_mono, got_sam = bool(is_superadditive(g)), bool(is_monotone_decreasing(g)), bool(is_sam(g))
        wit = check_supermodularity(g)
    except Exception as exc:
        ctx.violation("predicate-raised", f"{type(exc).__name__}: {exc} (n={n}, family={family})", case)
        return
    want_sa, want_mono = def_superadditive(n, v), def_monotone_nonincreasing(n, v)
    viol = supermodular_violations(n, v, 1e-10)
    for name, got, want in (("superadditive", got_sa, want_sa), ("monotone", got_mono, want_mono), ("sam", got_sam, want_sa and want_mono)):
        ctx.count("expected_true" if want else "expected_false")
        if got != want:
            ctx.violation(f"{name}-predicate-wrong", f"is_{name} -> {got}, definition -> {want} (n={n}, family={family}, values={list(v)[:16]})", case)
    ctx.count("expected_true" if not viol else "expected_false")
    if (wit is None) != (not viol):
        ctx.violation("supermodularity-predicate-wrong", f"check_supermodularity -> {wit}, definition has {len(viol)} violating triples "
                      f"(n={n}, family={family}, values={list(v)[:16]})", case)
    elif wit is not None:
        T, S, i = wit
        if (T.id, S.id, int(i)) not in set(viol):
            ctx.violation("supermodularity-witness-wrong", f"reported witness (T={T.id}, S={S.id}, i={i}) does not violate the definition", case)
    ctx.case(("g", n, tuple(v)), True,
             sample={"n": n, "family": family, "values": list(v), "superadditive": want_sa, "monotone": want_mono,
                     "supermodular": not viol} if family == "boundary_sa_half_tol" else None)


def boundary_games(ctx, rng) -> None:
    n = rng.choice([3, 4])
    size = 1 << n
    # a strictly superadditive, strictly supermodular base: v = |S|^2 * 3
    base = [3.0 * popcount(s) ** 2 for s in range(size)]
    u = rng.choice([m for m in range(size) if popcount(m) >= 2])
    for fam, delta in (("unit", 100.0), ("half_tol", None), ("twice_tol", None)):
        v = list(base)
        # make exactly the inequality v(S)+v(T) <= v(U) tight, then break it by delta: lower v(U)
        s = rng.choice([x for x in submasks(u) if x not in (0, u)])
        tight = v[s] + v[u ^ s]
        if delta is None:
            d = (0.5e-9 if fam == "half_tol" else 2e-9) * tight
        else:
            d = delta
        v[u] = tight - d
        ctx.count("boundary_games")
        check_predicates(ctx, n, v, f"boundary_sa_{fam}")
    # supermodularity boundary: take a modular (additive) game, bump one marginal by +-tolerance fractions
    w = [float(rng.randint(1, 5)) for _ in range(n)]
    add = [sum(w[i] for i in members(s)) for s in range(size)]
    for fam, d in (("half_tol", 0.5e-10), ("twice_tol", 2e-10), ("unit", 1.0)):
        v = list(add)
        i = rng.randrange(n)
        s = 0
        v[s | 1 << i] += d          # marginal of i at the empty set exceeds its marginal elsewhere by d
        ctx.count("boundary_games")
        check_predicates(ctx, n, v, f"boundary_supermodular_{fam}")
    # monotone boundary: constant-negative game with one value one ulp above its subset
    v = [0.0] + [-1.0] * (size - 1)
    m = rng.choice([x for x in range(size) if popcount(x) >= 2])
    v[m] = np.nextafter(-1.0, 0.0)
    ctx.count("boundary_games")
    check_predicates(ctx, n, v, "boundary_monotone_ulp")


def run(ctx) -> None:
    rng = ctx.rng
    quick = ctx.tier == "quick"
    for n in range(1, 11):
        if n % ctx.nshards == ctx.shard % ctx.nshards or n <= 4:
            check_collections(ctx, n)
            for m in range(1 << n):
                check_coalition(ctx, n, m)
    for n in range(1, 7):
        if n < 6 or ctx.shard % 2 == 0 or not quick:
            for a in range(1 << n):
                for b in range(1 << n):
                    check_pair(ctx, n, a, b)
    for _ in range(2000):
        n = rng.choice([7, 8, 9, 10])
        check_pair(ctx, n, rng.randrange(1 << n), rng.randrange(1 << n))
    check_large_ids(ctx, rng, 3000)
    # predicates: exhaustive small integer games
    vals = (-1.0, 0.0, 1.0, 2.0)
    for code in range(4 ** 3):
        v = [0.0] + [vals[(code >> (2 * k)) & 3] for k in range(3)]
        check_predicates(ctx, 2, v, "lattice_n2")
    ctx.count("lattice_n2_exhaustive")
    total3 = 4 ** 7
    for code in range(ctx.shard, total3, ctx.nshards):
        if ctx.out_of_time(8.0):
            ctx.count("lattice_n3_codes_skipped_for_time", (total3 - code) // ctx.nshards)
            break
        v = [0.0] + [vals[(code >> (2 * k)) & 3] for k in range(7)]
        check_predicates(ctx, 3, v, "lattice_n3")
    while not ctx.out_of_time(1.0):
        boundary_games(ctx, rng)
        n = rng.choice([3, 4, 4, 5])
        fam = rng.choice(["int", "float", "closure", "neg_closure"])
        size = 1 << n
        if fam == "int":
            v = [0.0] + [float(rng.randint(-2, 4)) for _ in range(size - 1)]
        elif fam == "float":
            v = [0.0] + [rng.uniform(-2, 4) for _ in range(size - 1)]
        elif fam == "closure":
            from .. import gen
            v = gen.sa_game(rng, n, rng.choice(gen.SA_FAMILIES))[0]
        else:
            from .. import gen
            v = gen.sam_game(rng, n, rng.choice(gen.SAM_FAMILIES))[0]
        if rng.random() < 0.3:
            k2 = rng.choice([-30, 20, 40])
            v = [x * 2.0 ** k2 for x in v]
            fam = f"{fam}*2^{k2}"
        check_predicates(ctx, n, v, fam)


def replay(ctx, case) -> None:
    if case["kind"] == "large":
        check_large_one(ctx, case["n"], case["a"], case["b"], case.get("p", 0))
        return
    if case["kind"] == "coalition":
        check_coalition(ctx, case["n"], case["mask"])
    elif case["kind"] == "pair":
        check_pair(ctx, case["n"], case["a"], case["b"])
    elif case["kind"] == "collections":
        check_collections(ctx, case["n"])
    else:
        check_predicates(ctx, case["n"], case["values"], case["family"])

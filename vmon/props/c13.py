"""C13 — built-in solvers pick valid actions by their rule and leave the env untouched.

Monitor: Solver.next_step runs on real envs at many reachable states; the env's step() is wrapped to record the
probes the solver itself makes; the env is fingerprinted before and after; the decision is compared with the
rule evaluated on reference rewards.  The expected-greedy search is compared with a brute force over the
recorded sampled games.
"""
from __future__ import annotations

from fractions import Fraction
from itertools import combinations, permutations

import numpy as np

from incomplete_cooperative.bounds import BOUNDS
from incomplete_cooperative.run.greedy import EPSILON, get_greedy_rewards
from incomplete_cooperative.run.model import GAP_FUNCTIONS, ModelInstance
from incomplete_cooperative.solvers import SOLVERS

from .. import gen, sut
from ..refmodel import (fr, minimal_masks, popcount, ref_bounds, ref_gap_exploitability, ref_gap_l1, ref_gap_linf)
from .c09 import Recorder
from .c11 import expected_gap

LEVEL = "exploration"
RULE = ("case = (env state, solver) decision: ModelInstance.get_env() envs (n=3: every reachable state through every "
        "order; n=4,5: random trajectories) for hidden games from asymmetric families (noisy_factory*, graph*, xos, "
        "cheerleader_next) and symmetric ones (factory*: many exact ties), with and without a step budget (so that states where "
        "a probe reports done only because the budget is used up are reached); all four registered solvers; one set of solver "
        "objects carried through several episodes whose hidden games share the minimal information (identical known values, "
        "different values in between). Oracles: "
        "returned action valid; env fingerprint (table, steps, hidden and normalised game, observation, mask, done) "
        "identical before/after; greedy/worst: reward of the choice == max/min over all valid actions of the reference "
        "reward, every probe the solver made matches the reference, and the choice is the first index attaining the "
        "extreme among the values the solver saw (and among exact rational rewards for l1/linf on exact families); "
        "largest: first index among the largest unknown coalitions. Expected-greedy (get_greedy_rewards, processes "
        "1/2/5, with and without randomisation): each extension minimises the mean reference gap over the recorded "
        "sampled games, no coalition repeated, rows == gaps of the prefix, curve non-increasing, >= brute-force optimum "
        "and == optimum at 0 and 1 reveals. Distinct = hash(hidden values, known set, solver, gap); non-trivial = at "
        "least two valid actions with different reference rewards (sizes for 'largest').")
SHARDS = {"quick": 4, "thorough": 16}
BUDGET = {"quick": 50, "thorough": 420}
REQUIRED = ["episodes_on_shared_minimal_information", "decisions_checked", "fingerprints_compared", "probes_recorded", "tie_states", "expected_greedy_runs",
            "n3_states_all_orders", "decisions_at_last_allowed_step", "states_reached_by_unstep"]

ASYM = ["noisy_factory", "noisy_factory_square", "noisy_factory_fixed", "graph_cycle", "graph_random", "xos", "xs",
        "factory_cheerleader_next", "graph_internet", "oxs"]
SYM = ["factory", "factory_one", "factory_square", "factory_fixed", "k_budget_generator"]
SAM_GENS = {"xos", "xs", "oxs", "k_budget_generator"}


def fingerprint(env):
    return (sut.table_bytes(env.incomplete_game), env.steps_taken,
            np.array(env.full_game.get_values()).tobytes(), np.array(env.normalized_game.get_values()).tobytes(),
            np.array(env.state).tobytes(), np.array(env.action_masks()).tobytes(), bool(env.done))


def decision(ctx, case, env, solver_name, solver, values) -> None:
    n, comp, gapname = case["n"], case["computer"], case["gap"]
    explor = gen.explorable(n)
    mask = np.array(env.action_masks(), dtype=bool)
    valid = [i for i in range(len(mask)) if mask[i]]
    if not valid:
        return
    known = [int(i) for i in np.nonzero(np.array(env.incomplete_game.are_values_known()))[0]]
    probes: list[tuple[int, float]] = []
    real_step = env.step

    def spy_step(a):
        out = real_step(a)
        probes.append((int(a), float(out[1])))
        return out
    before = fingerprint(env)
    env.step = spy_step
    try:
        action = solver.next_step(env)
    except Exception as exc:
        ctx.violation("solver-raised", f"{solver_name}.next_step raised {type(exc).__name__}: {exc} (known={known}, n={n})", case)
        return
    finally:
        del env.step
    after = fingerprint(env)
    ctx.count("decisions_checked")
    ctx.count("fingerprints_compared")
    ctx.count("probes_recorded", len(probes))
    c = dict(case)
    c["solver"], c["state_known"], c["hidden_values"] = solver_name, known, values

    def bad(mech, msg):
        ctx.violation(mech, f"{solver_name}: {msg} (known={known}, valid={valid}, n={n}, generator={case['generator']}, "
                            f"computer={comp}, gap={gapname})", c)
    if before != after:
        names = ["table", "steps_taken", "hidden game", "normalised game", "observation", "mask", "done"]
        bad("env-modified-by-solver", f"env changed: {[nm for nm, x, y in zip(names, before, after) if x != y]}")
    if not (isinstance(action, (int, np.integer)) and 0 <= int(action) < len(mask) and mask[int(action)]):
        bad("invalid-action", f"returned {action!r}, not a currently valid action")
        return
    action = int(action)
    scale = float(np.max(np.abs(np.array(values))))
    tol = sut.gap_tol(n, scale)
    rewards = {a: -expected_gap(n, values, sorted(set(known) | {explor[a]}), comp, gapname) for a in valid}
    nontrivial = len({round(r / scale, 9) if scale else 0.0 for r in rewards.values()}) >= 2
    if solver_name in ("greedy", "greedy_worst"):
        pick = max if solver_name == "greedy" else min
        best = pick(rewards.values())
        if abs(rewards[action] - best) > tol:
            bad("not-the-rule-action", f"chose {action} with immediate reward {rewards[action]!r}; "
                f"{'max' if solver_name == 'greedy' else 'min'} over valid actions is {best!r} at {pick(rewards, key=rewards.get)}")
        for a, r in probes:
            if a in rewards and abs(r - rewards[a]) > tol:
                bad("probe-reward-wrong", f"probe of action {a} saw reward {r!r}, reference {rewards[a]!r}")
                break
        if sorted(a for a, _ in probes) != valid:
            ctx.count("solver_probe_sets_differ_from_valid_actions")
        seen = dict(probes)
        if set(seen) >= set(valid):
            ext = pick(seen[a] for a in valid)
            first = next(a for a in valid if seen[a] == ext)
            if action != first:
                bad("tie-not-lowest-index", f"chose {action}; first index attaining the extreme among the values it saw is {first}")
            if sum(1 for a in valid if seen[a] == ext) > 1:
                ctx.count("tie_states")
        if case.get("exact") and gapname in ("l1_norm", "linf_norm", "exploitability") and comp in sut.SA_COMPUTERS:
            f = {"l1_norm": lambda lo, up: ref_gap_l1(lo, up), "linf_norm": lambda lo, up: ref_gap_linf(lo, up),
                 "exploitability": lambda lo, up: ref_gap_exploitability(n, lo, up)}[gapname]
            ex = {}
            for a in valid:
                lo, up = ref_bounds(n, sut.known_dict(values, sorted(set(known) | {explor[a]})))
                ex[a] = -f(lo, up)
            eb = pick(ex.values())
            ctx.count("exact_rule_checks")
            if gapname != "exploitability":
                first = next(a for a in valid if ex[a] == eb)
                if action != first:
                    bad("tie-not-lowest-index", f"chose {action}; lowest index with exactly extreme reward is {first} (exact rationals)")
            elif ex[action] != eb and abs(float(ex[action] - eb)) > tol:
                bad("not-the-rule-action", f"chose {action}: exact reward {float(ex[action])!r}, extreme {float(eb)!r}")
    elif solver_name == "largest":
        sizes = {a: popcount(explor[a]) for a in valid}
        first = next(a for a in valid if sizes[a] == max(sizes.values()))
        nontrivial = len(set(sizes.values())) >= 2
        if action != first:
            bad("not-the-rule-action", f"chose {action} (size {sizes[action]}); first largest unknown coalition is {first} "
                f"(size {sizes[first]})")
    if case.get("budget") is not None:
        ctx.count("decisions_in_step_limited_envs")
        if env.steps_taken == case["budget"] - 1:
            ctx.count("decisions_at_last_allowed_step")
    ctx.case((values, known, solver_name, gapname, comp, case.get("budget")), nontrivial,
             sample=({"solver": solver_name, "generator": case["generator"], "computer": comp, "gap": gapname, "n": n,
                      "known": known, "valid": valid, "chosen": action,
                      "rewards": {str(k): v for k, v in rewards.items()}} if len(known) == n + 3 else None))


def trajectory(ctx, case) -> None:
    """Build an env the way the CLI does, then walk through case['actions'] (ints = step, ['u', a] = unstep) and ask
    every solver at every state reached.  Solver objects live for the whole reset window (after_reset is called once)."""
    n = case["n"]
    inst = ModelInstance(number_of_players=n, game_class=case["computer"], game_generator=case["generator"],
                         gap_function=case["gap"], seed=case["seed"], run_steps_limit=case.get("budget"))
    rec = Recorder(inst.game_generator_fn, case.get("scale", 1.0), case.get("offset", 0.0))
    inst.game_generator_fn = rec
    env = inst.get_env()
    env.reset()
    values = [float(x) for x in env.full_game.get_values()]
    case = dict(case)
    case["exact"] = case.get("scale", 1.0) == 1.0 and case["generator"] in (
        "factory", "factory_one", "factory_square", "factory_fixed", "k_budget_generator", "factory_cheerleader_next", "graph_cycle")
    solvers = {name: SOLVERS[name](inst) for name in SOLVERS}
    for name, s in solvers.items():
        try:
            s.after_reset(env)
        except Exception as exc:
            ctx.violation("solver-raised", f"{name}.after_reset raised {type(exc).__name__}: {exc}", case)
            return
    for name, s in solvers.items():
        decision(ctx, case, env, name, s, values)
    done: list[int] = []
    for a in case["actions"]:
        try:
            if isinstance(a, (list, tuple)):
                if a[1] not in done:
                    continue
                env.unstep(a[1])
                done.remove(a[1])
                ctx.count("states_reached_by_unstep")
            else:
                if a in done:
                    continue
                env.step(a)
                done.append(a)
        except Exception as exc:
            ctx.violation("env-raised", f"{type(exc).__name__}: {exc} during {a} (done={done})", case)
            return
        for name, s in solvers.items():
            if name in case.get("solvers", SOLVERS):
                decision(ctx, case, env, name, s, values)


def shared_minimal_games(rng, n: int, k: int) -> list[list[float]]:
    """k superadditive integer games that agree on the empty coalition, every singleton and the grand coalition and differ
    in between: what one solver object meets when successive episodes start from identical known values."""
    from ..gen import _closure_max
    single = [float(rng.randint(0, 3)) for _ in range(n)]
    games = []
    for _ in range(k):
        w = [0.0] * (1 << n)
        for m in range(1, 1 << n):
            w[m] = float(rng.randint(0, 6 * popcount(m))) if popcount(m) > 1 else single[m.bit_length() - 1]
        v = [float(x) for x in _closure_max(n, w)]
        games.append(v)
    top = max(g[-1] for g in games) + float(rng.randint(0, 3))
    for g in games:
        g[-1] = top               # raising v(N) keeps a game superadditive
    return games


def episodes(ctx, case) -> None:
    """ONE set of solver objects, one env, several episodes whose hidden games (case['games']) share the minimal
    information: every decision in every episode must follow the rule for the hidden game of THAT episode."""
    from incomplete_cooperative.game import IncompleteCooperativeGame
    n = case["n"]
    inst = ModelInstance(number_of_players=n, game_class=case["computer"], game_generator="factory",
                         gap_function=case["gap"], seed=0, run_steps_limit=case.get("budget"))
    served = [0]

    def handout():        # cyclic: the env may draw more often than once per episode (construction, solver set-up)
        g = IncompleteCooperativeGame(n)
        g.set_values(np.array(case["games"][served[0] % len(case["games"])], dtype=np.float64))
        served[0] += 1
        return g
    inst.game_generator_fn = handout
    env = inst.get_env()
    solvers = {name: SOLVERS[name](inst) for name in SOLVERS}
    sub = dict(case, exact=True, scale=1.0)
    for ep, acts in enumerate(case["actions"]):
        try:
            env.reset()
            for name, s in solvers.items():
                s.after_reset(env)
        except Exception as exc:
            ctx.violation("solver-raised", f"reset/after_reset of episode {ep} raised {type(exc).__name__}: {exc}", case)
            return
        values = [float(x) for x in env.full_game.get_values()]
        ctx.seen("shared_minimal_hidden_games", str(hash(tuple(values))))   # the rule is judged on what the env really holds
        ctx.count("episodes_on_shared_minimal_information")
        for name, s in solvers.items():
            decision(ctx, sub, env, name, s, values)
        for a in acts:
            if bool(env.done) or not np.array(env.action_masks(), dtype=bool)[a]:
                continue
            try:
                env.step(a)
            except Exception as exc:
                ctx.violation("env-raised", f"{type(exc).__name__}: {exc} during {a} (episode {ep})", case)
                return
            for name, s in solvers.items():
                decision(ctx, sub, env, name, s, values)


def greedy_search(ctx, case) -> None:
    import random as pyrandom
    n, comp, gapname, reps, steps = case["n"], case["computer"], case["gap"], case["samples"], case["steps"]
    inst = ModelInstance(number_of_players=n, game_class=comp, game_generator=case["generator"], gap_function=gapname,
                         seed=case["seed"])
    rec = Recorder(inst.game_generator_fn, case.get("scale", 1.0))
    inst.game_generator_fn = rec
    env = inst.get_env()
    rnd = pyrandom.Random(case["seed"]) if case["randomize"] else None
    try:
        best, seq = get_greedy_rewards(env, steps, reps, GAP_FUNCTIONS[gapname], case["processes"], rnd)
    except Exception as exc:
        ctx.violation("expected-greedy-raised", f"{type(exc).__name__}: {exc} ({case})", case)
        return
    ctx.count("expected_greedy_runs")
    games = rec.games[-reps:]
    mini = sorted(minimal_masks(n))
    explor = gen.explorable(n)
    scale = max(float(np.max(np.abs(np.array(g)))) for g in games)
    tol = sut.gap_tol(n, scale)
    slack = (EPSILON if case["randomize"] else 0.0) + tol

    def mean_gap(s):
        return float(np.mean([expected_gap(n, g, sorted(set(mini) | set(s)), comp, gapname) for g in games]))
    if len(set(seq)) != len(seq) or any(m not in explor for m in seq):
        ctx.violation("expected-greedy-repeats-or-invalid", f"sequence {seq}", case)
        return
    if len(seq) != steps:
        ctx.violation("expected-greedy-wrong-length", f"sequence {seq} for {steps} steps", case)
        return
    prev = None
    for t in range(steps + 1):
        prefix = seq[:t]
        row = np.array(best[t], dtype=float)
        want_row = [expected_gap(n, g, sorted(set(mini) | set(prefix)), comp, gapname) for g in games]
        if not np.allclose(row, want_row, rtol=0, atol=tol):
            ctx.violation("expected-greedy-row-not-prefix-gaps", f"row {t} = {row.tolist()}, gaps of prefix {prefix} on the sampled "
                          f"games {want_row}", case)
        m = float(np.mean(row))
        if t >= 1:
            cands = [x for x in explor if x not in seq[:t - 1]]
            means = {x: mean_gap(seq[:t - 1] + [x]) for x in cands}
            if means[seq[t - 1]] > min(means.values()) + slack:
                ctx.violation("expected-greedy-not-minimising", f"step {t}: chose {seq[t - 1]} (mean gap {means[seq[t - 1]]!r}); "
                              f"{min(means, key=means.get)} gives {min(means.values())!r}", case)
        if prev is not None and m > prev + tol:
            ctx.violation("expected-greedy-curve-increasing", f"mean gap row {t}: {m!r} > previous {prev!r}", case)
        if t <= case.get("brute_k", 3):
            opt = min(mean_gap(list(s)) for s in combinations(explor, t))
            ctx.count("brute_force_optima")
            if m < opt - tol:
                ctx.violation("expected-greedy-below-optimum", f"row {t}: {m!r} below the exhaustive optimum {opt!r}", case)
            if t <= 1 and m > opt + slack:
                ctx.violation("expected-greedy-not-optimal-at-0-1", f"row {t}: {m!r}, exhaustive optimum {opt!r}", case)
        prev = m
        ctx.case((games, prefix, comp, gapname, case["randomize"]), t >= 1,
                 sample=({"generator": case["generator"], "computer": comp, "gap": gapname, "n": n, "samples": reps,
                          "sequence": seq, "mean_curve": [float(np.mean(best[i])) for i in range(steps + 1)]} if t == 1 else None))


def run(ctx) -> None:
    if ctx.tier == "thorough" and ctx.shard == ctx.nshards - 1:
        # the repository's own tests as one more workload for the contracts (vmon/contracts.py)
        from ..contracts_suite import run_repo_tests
        run_repo_tests(ctx, ['incomplete_cooperative/tests/test_solvers.py'], 'solvers,env')
    rng = ctx.rng
    quick = ctx.tier == "quick"
    # guaranteed minimum, independent of the time budget: a symmetric game (ties) under a step budget, one expected-greedy run
    trajectory(ctx, {"n": 3, "generator": "factory", "computer": "superadditive", "gap": "l1_norm", "seed": rng.randint(0, 10**6),
                     "actions": [0, 1, ["u", 0], 2, 0], "budget": 2, "scale": 1.0})
    trajectory(ctx, {"n": 4, "generator": "factory", "computer": "superadditive_cached", "gap": "linf_norm", "seed": rng.randint(0, 10**6),
                     "actions": [0, 3, 5], "budget": 1, "scale": 1.0})
    greedy_search(ctx, {"n": 3, "generator": "noisy_factory", "computer": "superadditive", "gap": "exploitability", "seed": rng.randint(0, 10**6),
                        "samples": 2, "steps": 2, "processes": 1, "randomize": False, "brute_k": 2, "scale": 1.0})
    # one set of solver objects through several episodes that start from IDENTICAL known values (same singletons and grand
    # coalition, different values in between): anything a solver remembers about "this knowledge" is stale there
    for n_ in (3, 4, 4):
        games = shared_minimal_games(rng, n_, 4)
        nexp = (1 << n_) - n_ - 2
        acts = [rng.sample(range(nexp), rng.randint(1, min(nexp, 3))) for _ in games]
        episodes(ctx, {"kind": "episodes", "generator": "shared-minimal-information", "n": n_, "computer": rng.choice(sut.SA_COMPUTERS), "gap": rng.choice(list(GAP_FUNCTIONS)),
                       "games": games, "actions": acts, "budget": None})
    # n = 3: every reachable state through every order
    gens3 = ASYM + SYM
    rng.shuffle(gens3)
    for gi, g in enumerate(gens3):
        if quick and gi % ctx.nshards != ctx.shard:
            continue
        if ctx.out_of_time(ctx.budget_s * 0.55):
            break
        comp = rng.choice(list(BOUNDS.keys())[:5]) if g in SAM_GENS else rng.choice(sut.SA_COMPUTERS)
        gapname = rng.choice(list(GAP_FUNCTIONS))
        seed = rng.randint(0, 10**6)
        for order in permutations(range(3)):
            acts3 = list(order) + [["u", order[1]], ["u", order[0]], order[0], ["u", order[2]], order[1]]
            trajectory(ctx, {"n": 3, "generator": g, "computer": comp, "gap": gapname, "seed": seed, "actions": acts3,
                             "budget": rng.choice([None, 1, 2, 3]), "scale": rng.choice(sut.SCALES)})
        ctx.count("n3_states_all_orders")
    i = 0
    while not ctx.out_of_time(6.0):
        i += 1
        g = rng.choice(ASYM + SYM)
        comp = rng.choice(list(BOUNDS.keys())[:4]) if g in SAM_GENS else rng.choice(sut.SA_COMPUTERS)
        gapname = rng.choice(list(GAP_FUNCTIONS))
        if i % 3 == 0:
            n = rng.choice([3, 4])
            nexp = (1 << n) - n - 2
            greedy_search(ctx, {"n": n, "generator": g, "computer": comp, "gap": gapname, "seed": rng.randint(0, 10**6),
                                "samples": rng.randint(1, 4), "steps": rng.randint(1, min(nexp, 3 if n == 3 else 4)),
                                "processes": rng.choice([1, 2, 5]), "randomize": rng.random() < 0.4,
                                "brute_k": 3 if n == 3 else 2, "scale": rng.choice(sut.SCALES)})
        else:
            n = rng.choice([4, 4, 5])
            nexp = (1 << n) - n - 2
            acts = list(range(nexp))
            rng.shuffle(acts)
            acts = acts[: rng.randint(1, nexp - 1 if n == 4 else 8)]
            mixed = []
            for a_ in acts:                      # interleave un-steps of earlier actions (states reached by taking moves back)
                mixed.append(a_)
                if rng.random() < 0.3:
                    back = rng.choice([x for x in mixed if not isinstance(x, list)])
                    mixed.append(["u", back])
                    if rng.random() < 0.5:
                        mixed.append(back)
            acts = mixed
            trajectory(ctx, {"n": n, "generator": g, "computer": comp, "gap": gapname, "seed": rng.randint(0, 10**6),
                             "actions": acts, "budget": rng.choice([None, None, rng.randint(1, len(acts) + 1)]),
                             "scale": rng.choice(sut.SCALES), "offset": rng.choice([0.0, 0.0, 0.0, -1e6]), "solvers": ["greedy", "greedy_worst", "largest", "random"] if n == 4 else
                             rng.sample(["greedy", "greedy_worst", "largest", "random"], 2)})


def replay(ctx, case) -> None:
    if case.get("kind") == "repo-tests":
        from ..contracts_suite import run_repo_tests
        run_repo_tests(ctx, case["files"], case["contracts"])
        return
    if case.get("kind") == "episodes":
        episodes(ctx, case)
    elif "samples" in case:
        greedy_search(ctx, case)
    else:
        trajectory(ctx, case)

"""C15 — normalisation maps superadditive games into [0,1] and is invertible.

Monitor: the real normalize_game()/denormalize_game() run on real game objects (value tables and graph games)
that the library's own is_superadditive() accepts; the mutated object and the returned information are compared
with the exact-rational normalisation, in three regimes decided from the exact surplus (normcore.regime).
"""
from __future__ import annotations

import numpy as np

from incomplete_cooperative.coalitions import minimal_game_coalitions
from incomplete_cooperative.game import IncompleteCooperativeGame
from incomplete_cooperative.game_properties import is_superadditive
from incomplete_cooperative.generators import GENERATORS
from incomplete_cooperative.graph_game import GraphCooperativeGame
from incomplete_cooperative.icg_gym import ICG_Gym
from incomplete_cooperative.norms import l1_norm
from incomplete_cooperative.normalize import denormalize_game, normalize_game

from .. import gen, sut
from ..normcore import regime
from ..refmodel import members, popcount

LEVEL = "exploration"
RULE = ("case = one game accepted by the library's is_superadditive(): exact integer/dyadic/grid closures, float "
        "closures, additive games with float weights summed in different orders (rounding residue surplus), nearly "
        "additive games (surplus 2^-k, k=1..40), every registered generator family (n=3..6), graph games with "
        "zero/tiny/large weights in both representations. normalize_game() mutates the real object. Oracles: regular "
        "regime (|surplus| well above rounding): values == exact (v(S)-sum v(i))/s within tau=1e-9+1e3*eps*scale/|s|, "
        "singletons 0, range [0,1], grand 1, superadditive again; additive regime (surplus 0 or <=64*eps*scale): "
        "identically ~0; band in between: counted inconclusive, never a violation; graph and tabulated form agree; "
        "denormalize(normalize(v)) == v within 1e-9*(1+scale); env observations inside the declared Box. Distinct = "
        "hash(values); non-trivial = regular regime with surplus != 0.")
SHARDS = {"quick": 4, "thorough": 16}
BUDGET = {"quick": 40, "thorough": 360}
REQUIRED = ["games_normalized", "regular_regime", "additive_regime", "graph_games", "round_trips", "registered_generator_games",
            "env_observation_checks"]


def check_values(ctx, case, n, orig, got, where: str) -> str:
    kind, norm, tau = regime(n, orig)
    ctx.count(f"{kind}_regime")
    size = 1 << n
    got = np.array(got, dtype=np.float64)

    def bad(mech, msg):
        ctx.violation(mech, f"{where}: {msg} (n={n}, family={case['family']}, regime={kind})", case)
    if kind == "band":
        return kind
    if np.any(~np.isfinite(got)):
        bad("normalized-not-finite", f"NaN/inf among normalised values {got[:8].tolist()}")
        return kind
    if kind == "additive":
        if np.any(np.abs(got) > tau):
            i = int(np.argmax(np.abs(got)))
            bad("additive-game-not-zero", f"game is additive (surplus is 0 or a rounding residue) but normalised value of coalition {i} "
                f"is {got[i]!r}")
        return kind
    want = np.array([float(x) for x in norm])
    if not np.allclose(got, want, rtol=0, atol=tau):
        i = int(np.argmax(np.abs(got - want)))
        bad("normalized-value-wrong", f"coalition {i}: {got[i]!r}, exact (v(S)-sum v(i))/surplus = {want[i]!r} (tau={tau:.3g})")
        return kind
    for i in range(n):
        if abs(got[1 << i]) > tau:
            bad("singleton-not-zero", f"singleton {i} -> {got[1 << i]!r}")
    if abs(got[size - 1] - 1.0) > tau:
        bad("grand-not-one", f"grand coalition -> {got[size - 1]!r}")
    if np.any(got < -tau) or np.any(got > 1 + tau):
        i = int(np.argmax(np.maximum(-got, got - 1)))
        bad("value-outside-unit-interval", f"coalition {i} -> {got[i]!r}")
    # superadditive again (absolute slack from the normalisation error)
    v = got.tolist()
    for u in range(1, size):
        lowbit = u & -u
        s = (u - 1) & u
        while s:
            if s & lowbit and v[s] + v[u ^ s] > v[u] + 3 * tau + 1e-9 * abs(v[u]):
                bad("normalized-not-superadditive", f"v({s})+v({u ^ s}) = {v[s] + v[u ^ s]!r} > v({u}) = {v[u]!r}")
                return kind
            s = (s - 1) & u
    return kind


def run_table_case(ctx, case) -> None:
    values = case["values"]
    n = (len(values) - 1).bit_length()
    g = IncompleteCooperativeGame(n)
    g.set_values(np.array(values, dtype=np.float64))
    if not is_superadditive(g):
        ctx.count("not_accepted_by_library")
        return
    ctx.count("games_normalized")
    cp = g.copy()
    normalize_game(cp)
    if [float(x) for x in g.get_values()] != [float(x) for x in values]:
        ctx.violation("normalising-a-copy-changed-the-original", f"value table: normalize_game(copy) changed the original (n={n})", case)
        return
    try:
        with np.errstate(divide="raise", invalid="raise", over="raise"):
            info = normalize_game(g)
            got = np.array(g.get_values(), dtype=np.float64)
    except Exception as exc:
        ctx.violation("normalize-raised", f"{type(exc).__name__}: {exc} (n={n}, family={case['family']})", case)
        return
    kind = check_values(ctx, case, n, values, got, "value table")
    try:
        denormalize_game(g, info)
        back = np.array(g.get_values(), dtype=np.float64)
    except Exception as exc:
        ctx.violation("denormalize-raised", f"{type(exc).__name__}: {exc} (n={n}, family={case['family']})", case)
        return
    ctx.count("round_trips")
    scale = float(np.max(np.abs(np.array(values)))) if len(values) else 0.0
    if kind != "band" and not np.allclose(back, values, rtol=0, atol=1e-9 * (1.0 + scale)):
        i = int(np.argmax(np.abs(back - np.array(values))))
        ctx.violation("round-trip-differs", f"denormalize(normalize(v)) at coalition {i}: {back[i]!r}, original {values[i]!r} "
                      f"(n={n}, family={case['family']}, regime={kind})", case)
    ctx.case(values, kind == "regular",
             sample={"n": n, "family": case["family"], "regime": kind, "values_head": values[:8], "normalized_head": got[:8].tolist()})


def run_graph_case(ctx, case) -> None:
    m = np.array(case["graph"], dtype=np.float64)
    n = m.shape[0]
    gg = GraphCooperativeGame(m)
    values = [float(x) for x in gg.get_values()]
    if not is_superadditive(gg):
        ctx.count("not_accepted_by_library")
        return
    ctx.count("games_normalized")
    ctx.count("graph_games")
    tab = IncompleteCooperativeGame(n)
    tab.set_values(np.array(values, dtype=np.float64))
    # the env's pattern: the hidden game stays as it is, a COPY is normalised
    try:
        cp = gg.copy()
        normalize_game(cp)
        ctx.count("copies_normalised")
        after = [float(x) for x in gg.get_values()]
        if after != values:
            ctx.violation("normalising-a-copy-changed-the-original", f"graph game: values {values[:8]} became {after[:8]} after "
                          f"normalize_game(copy) (n={n})", dict(case, family=case.get("family", "graph")))
            return
    except Exception as exc:
        ctx.violation("normalize-raised", f"{type(exc).__name__}: {exc} (graph game copy, n={n})", case)
        return
    try:
        with np.errstate(divide="raise", invalid="raise", over="raise"):
            info_g = normalize_game(gg)
            info_t = normalize_game(tab)
            got_g = np.array(gg.get_values(), dtype=np.float64)
            got_t = np.array(tab.get_values(), dtype=np.float64)
    except Exception as exc:
        ctx.violation("normalize-raised", f"{type(exc).__name__}: {exc} (graph game, n={n})", case)
        return
    c = dict(case)
    c["family"] = case.get("family", "graph")
    kind = check_values(ctx, c, n, values, got_g, "graph form")
    check_values(ctx, c, n, values, got_t, "tabulated form")
    if kind != "band" and not np.allclose(got_g, got_t, rtol=0, atol=1e-9):
        i = int(np.argmax(np.abs(got_g - got_t)))
        ctx.violation("graph-and-table-disagree", f"coalition {i}: graph form {got_g[i]!r}, tabulated form {got_t[i]!r} (n={n})", c)
    try:
        denormalize_game(gg, info_g)
        back = np.array(gg.get_values(), dtype=np.float64)
        ctx.count("round_trips")
        scale = float(np.max(np.abs(np.array(values)))) if values else 0.0
        if kind != "band" and not np.allclose(back, values, rtol=1e-9, atol=1e-9 * (1.0 + scale)):
            ctx.violation("round-trip-differs", f"graph denormalize(normalize(v)) differs: {back[:8].tolist()} vs {values[:8]} (n={n})", c)
    except Exception as exc:
        ctx.violation("denormalize-raised", f"{type(exc).__name__}: {exc} (graph game, n={n})", c)
    ctx.case(values, kind == "regular", sample={"n": n, "family": "graph", "regime": kind, "matrix": m.tolist()} if n == 3 else None)


def additive_float(rng, n, style):
    w = [rng.uniform(-3, 7) if style != "pos" else rng.random() for _ in range(n)]
    if style == "int_additive":
        w = [float(rng.randint(-4, 6)) for _ in range(n)]            # exactly additive, surplus exactly 0
    if style == "cancelling_exact" and n >= 2:
        w = [rng.choice([1.0, 2.0, 0.5, 0.25, 3.0]) * rng.choice([1, -1]) for _ in range(n - 1)]
        w.append(-sum(w))                     # dyadic stand-alone values that cancel EXACTLY (their sum is 0.0)
    if style == "cancelling" and n >= 2:
        w = [rng.choice([0.1, 0.2, 0.3, 0.7, 1.1, rng.random()]) * rng.choice([1, -1]) for _ in range(n - 1)]
        w.append(-sum(w))                     # stand-alone values of mixed sign that cancel: sum ~ 0, sum of |.| is not
    size = 1 << n
    v = [0.0] * size
    if style == "np_order":           # the library's own accumulation order (player by player)
        arr = np.zeros(size)
        for i in range(n):
            arr[np.arange(size) & (1 << i) != 0] += w[i]
        return [float(x) for x in arr]
    for s in range(1, size):
        ms = members(s)
        if style == "reverse":
            ms = ms[::-1]
        elif style == "shuffled":
            rng.shuffle(ms)
        t = 0.0
        for i in ms:
            t += w[i]
        v[s] = t
    return v


def env_observation_case(ctx, name, n, seed) -> None:
    rng = np.random.default_rng(seed)
    inc = IncompleteCooperativeGame(n)
    try:
        env = ICG_Gym(inc, lambda: GENERATORS[name](n, rng), minimal_game_coalitions(inc), l1_norm)
    except Exception as exc:
        ctx.violation("env-construction-raised", f"{type(exc).__name__}: {exc} ({name}, n={n})", {"generator": name, "n": n, "seed": seed, "family": name})
        return
    values = [float(x) for x in env.full_game.get_values()]
    kind, norm, tau = regime(n, values)
    for a in range(len(env.explorable_coalitions)):
        env.step(a)
    obs = np.array(env.state, dtype=np.float64)
    ctx.count("env_observation_checks")
    if kind != "band" and (np.any(~np.isfinite(obs)) or np.any(obs < -max(tau, 1e-9)) or np.any(obs > 1 + max(tau, 1e-9))):
        ctx.violation("observation-outside-declared-box", f"{name} (n={n}, seed={seed}): observation {obs.tolist()} outside [0,1]",
                      {"generator": name, "n": n, "seed": seed, "family": name, "values": values})
    ctx.case(("env", values), kind == "regular")


def run(ctx) -> None:
    rng = ctx.rng
    quick = ctx.tier == "quick"
    keys = [k for k in GENERATORS if k != "convex"]
    # player counts beyond one block of 2^12 coalitions / beyond 8-bit ids: additive part with DISTINCT stand-alone values
    for nb in ([9, 13] if ctx.shard % 2 == 0 else [10, 12]) if quick else [9, 10, 11, 12, 13, 14][ctx.shard % 6:][:2]:
        wts = [float(rng.randint(1, 9) + i) for i in range(nb)]
        ids = np.arange(1 << nb)
        pc = np.array([bin(int(x)).count("1") for x in ids])
        vals = sum(np.where(ids >> i & 1, wts[i], 0.0) for i in range(nb)) + (pc * (pc - 1) / 2.0) * rng.choice([0.5, 1.0, 2.0])
        run_table_case(ctx, {"family": f"big_n_{nb}", "values": [float(x) for x in vals]})
        ctx.count("games_with_more_than_8_players")
    # guaranteed minimum, independent of the time budget
    run_graph_case(ctx, {"family": "graph_int", "graph": [[0.0, 2.0, 1.0], [0.0, 0.0, 3.0], [0.0, 0.0, 0.0]]})
    g0 = GENERATORS["noisy_factory"](4, np.random.default_rng(rng.randint(0, 2**31)))
    ctx.count("registered_generator_games")
    run_table_case(ctx, {"family": "noisy_factory", "values": [float(x) for x in g0.get_values()]})
    env_observation_case(ctx, "xos", 4, rng.randint(0, 2**31))
    run_table_case(ctx, {"family": "additive_int_additive", "values": additive_float(rng, 4, "int_additive")})
    i = 0
    while not ctx.out_of_time(1.0):
        i += 1
        r = i % 10
        n = rng.choice([2, 3, 3, 4, 4, 5, 6])
        if r in (0, 1, 2):
            fam = rng.choice(gen.SA_FAMILIES + gen.SAM_FAMILIES)
            values = (gen.sam_game if fam.startswith("sam") else gen.sa_game)(rng, n, fam)[0]
            if rng.random() < 0.25:
                k2 = rng.choice([-60, -30, 30, 60])           # other units; powers of two keep everything exact
                values = [v * 2.0 ** k2 for v in values]
                fam = f"{fam}*2^{k2}"
            run_table_case(ctx, {"family": fam, "values": values})
            if rng.random() < 0.03:
                try:
                    normalize_game(object())                  # a failing call survived by the caller
                except Exception:
                    pass
                ctx.count("poison_calls")
        elif r in (3, 4):
            style = rng.choice(["forward", "reverse", "shuffled", "np_order", "pos", "cancelling", "cancelling", "cancelling_exact", "int_additive"])
            vals_ = additive_float(rng, n, style)
            if style in ("cancelling_exact", "int_additive") and rng.random() < 0.5:
                # the same stand-alone values plus a genuine surplus (regular regime)
                sur = gen._closure_max(n, [float(rng.randint(0, 3)) if popcount(s) > 1 else 0.0 for s in range(1 << n)])
                vals_ = [a + b for a, b in zip(vals_, sur)]
                style += "_plus_surplus"
            run_table_case(ctx, {"family": f"additive_{style}", "values": vals_})
        elif r == 5:
            k = rng.randint(1, 40)
            base = additive_float(rng, n, "forward")
            sur = gen._closure_max(n, [rng.random() * 2.0 ** -k if popcount(s) > 1 else 0.0 for s in range(1 << n)])
            run_table_case(ctx, {"family": f"near_additive_2^-{k}", "values": [b + s for b, s in zip(base, sur)]})
        elif r in (6, 7):
            name = rng.choice(keys)
            nn = rng.choice([3, 4, 5, 6])
            seed = rng.randint(0, 2**31)
            try:
                g = GENERATORS[name](nn, np.random.default_rng(seed))
            except Exception:
                ctx.count("generator_raised_see_C10")
                continue
            ctx.count("registered_generator_games")
            if isinstance(g, GraphCooperativeGame):
                run_graph_case(ctx, {"family": name, "graph": np.array(g._graph_matrix).tolist()})
            else:
                run_table_case(ctx, {"family": name, "values": [float(x) for x in g.get_values()]})
            if i % 4 == 0:
                env_observation_case(ctx, name, nn if nn <= 5 else 5, seed)
        else:
            nn = max(2, n)
            style = rng.choice(["zero", "tiny", "large", "int", "unit", "sparse"])
            if style == "zero":
                m = np.zeros((nn, nn))
            elif style == "tiny":
                m = np.array([[rng.random() * 1e-200 for _ in range(nn)] for _ in range(nn)])
            elif style == "large":
                m = np.array([[rng.random() * 1e150 for _ in range(nn)] for _ in range(nn)])
            elif style == "int":
                m = np.array([[float(rng.randint(0, 5)) for _ in range(nn)] for _ in range(nn)])
            elif style == "sparse":
                m = np.array([[rng.random() if rng.random() < 0.3 else 0.0 for _ in range(nn)] for _ in range(nn)])
            else:
                m = np.array([[rng.random() for _ in range(nn)] for _ in range(nn)])
            run_graph_case(ctx, {"family": f"graph_{style}", "graph": m.tolist()})


def replay(ctx, case) -> None:
    if "graph" in case:
        run_graph_case(ctx, case)
    elif "generator" in case:
        env_observation_case(ctx, case["generator"], case["n"], case["seed"])
    else:
        run_table_case(ctx, case)

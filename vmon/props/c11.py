"""C11 — exhaustive search evaluates each reveal set once, correctly; finds the optimum.

Monitor: the worker function of the real search is wrapped (functools.wraps, so forked pool workers execute the
wrapper) and appends one event per task (pid, revealed set, gap) to an O_APPEND log; after the pool finished the
parent checks exactly-once, order, correctness of every gap against the reference, and independence of the number
of worker processes.  Best-states is checked against a brute force over the recorded sampled games.
"""
from __future__ import annotations

import functools
import json
import os
import random
import time
from itertools import combinations

import numpy as np

from incomplete_cooperative import gameplay
from incomplete_cooperative.bounds import BOUNDS
from incomplete_cooperative.coalitions import Coalition
from incomplete_cooperative.meta_game import MetaGame
from incomplete_cooperative.run.model import GAP_FUNCTIONS

from .. import env as venv
from .. import gen, sut
from ..refmodel import minimal_masks, ref_bounds, ref_gap_float
from .c09 import Recorder

LEVEL = "exploration"
RULE = ("case = one reveal set evaluated by a pool run of get_exploitabilities_of_action_sequences / "
        "sample_exploitabilities_of_action_sequences / get_best_exploitability on real objects; n=3 (all k), n=4 (k<=3 "
        "quick, k<=6 thorough), starting knowledge = minimal or minimal+extras, 4 gap functions x matching computers, "
        "worker counts {1,2,5} quick / {1,2,3,4,5,8,16} thorough with 0-2 ms jitter inside the workers. Oracles: the "
        "logged multiset of sets == all subsets of size<=k of the unknown coalitions, each exactly once; returned "
        "list in enumeration order; each gap == reference gap of (start + set) (exact reference bounds for SA "
        "computers, fresh object for SAM); results bit-identical across worker counts; MetaGame.get_value equal; "
        "best-states row == brute-force minimum mean gap over the recorded sampled games, its set attains it, curve "
        "non-increasing. Distinct = hash(values, start, set, computer, gap); non-trivial = gap differs from the gap "
        "of the starting knowledge.")
SHARDS = {"quick": 4, "thorough": 16}
BUDGET = {"quick": 45, "thorough": 420}
REQUIRED = ["pool_runs", "worker_events", "sets_checked", "cross_process_comparisons", "metagame_values",
            "best_states_runs", "multi_worker_runs"]

_LOG = {"path": None, "jitter": 0.0}
_ORIG = gameplay._get_act_sequence_exploitability


@functools.wraps(_ORIG)
def _logged(game, full_game, action_sequence, known_coalitions, gap_func):
    if _LOG["jitter"]:
        time.sleep(random.random() * _LOG["jitter"])
    seq, gap = _ORIG(game, full_game, action_sequence, known_coalitions, gap_func)
    if _LOG["path"]:
        line = json.dumps({"pid": os.getpid(), "set": sorted(c.id for c in action_sequence), "gap": float(gap).hex()}) + "\n"
        fd = os.open(_LOG["path"], os.O_WRONLY | os.O_APPEND | os.O_CREAT, 0o644)
        try:
            os.write(fd, line.encode())
        finally:
            os.close(fd)
    return seq, gap


def install(path: str) -> None:
    gameplay._get_act_sequence_exploitability = _logged
    _LOG["path"] = path


def read_log(path: str) -> list[dict]:
    if not os.path.exists(path):
        return []
    out = [json.loads(l) for l in open(path) if l.strip()]
    os.unlink(path)
    return out


def expected_gap(n, values, known_masks, comp, gapname):
    if comp in sut.SA_COMPUTERS:
        lo, up = ref_bounds(n, sut.known_dict(values, known_masks))
        return ref_gap_float(gapname, n, [float(x) for x in lo], [float(x) for x in up])
    g = sut.new_game(n, BOUNDS[comp])
    sut.set_knowledge(g, values, known_masks)
    g.compute_bounds()
    _, lo, up = sut.table(g)
    return ref_gap_float(gapname, n, lo.tolist(), up.tolist())


rng_meta = random.Random(12345)


def search_case(ctx, case, logpath) -> None:
    n, values, comp, gapname, start, k = case["n"], case["values"], case["computer"], case["gap"], case["start"], case["k"]
    full = sut.full_game(values)
    unknown = [m for m in range(1 << n) if m not in start]
    want_sets = [list(c) for i in range(min(k, len(unknown)) + 1) for c in combinations(unknown, i)]
    scale = float(np.max(np.abs(np.array(values))))
    tol = sut.gap_tol(n, scale)
    base_gap = None
    results = {}
    for procs in case["processes"]:
        game = sut.new_game(n, BOUNDS[comp])
        sut.set_knowledge(game, values, start)
        _LOG["jitter"] = case.get("jitter", 0.0)
        try:
            res = list(gameplay.get_exploitabilities_of_action_sequences(game, full, GAP_FUNCTIONS[gapname], max_size=k,
                                                                         processes=procs))
        except Exception as exc:
            ctx.violation("search-raised", f"{type(exc).__name__}: {exc} (n={n}, k={k}, processes={procs})", case)
            return
        finally:
            _LOG["jitter"] = 0.0
        events = read_log(logpath)
        ctx.count("pool_runs")
        ctx.count("worker_events", len(events))
        if procs > 1:
            ctx.count("multi_worker_runs")
        ctx.seen("worker_pids_per_run", f"{procs}:{len({e['pid'] for e in events})}")
        ctx.seen("chunkings", f"{procs}:{len(want_sets)}")
        c = dict(case)
        c["processes"] = [procs]
        # exactly once
        logged = sorted(tuple(e["set"]) for e in events)
        if logged != sorted(tuple(s) for s in want_sets):
            missing = set(map(tuple, want_sets)) - set(logged)
            dup = [s for s in set(logged) if logged.count(s) > 1][:3]
            extra = set(logged) - set(map(tuple, want_sets))
            ctx.violation("sets-not-evaluated-exactly-once", f"processes={procs}: missing {sorted(missing)[:3]}, duplicated {dup}, "
                          f"unexpected {sorted(extra)[:3]} (n={n}, k={k}, start={start})", c)
        # returned list: enumeration order, every set once
        got_sets = [sorted(x.id for x in seq) for seq, _ in res]
        if got_sets != want_sets:
            ctx.violation("result-list-wrong-order-or-content", f"processes={procs}: returned {len(got_sets)} sets, expected "
                          f"{len(want_sets)} in enumeration order (first mismatch at "
                          f"{next((i for i, (a, b) in enumerate(zip(got_sets, want_sets)) if a != b), min(len(got_sets), len(want_sets)))})", c)
            return
        ev_gap = {tuple(e["set"]): float.fromhex(e["gap"]) for e in events}
        for (seq, gap), s in zip(res, want_sets):
            gap = float(gap)
            ctx.count("sets_checked")
            want = expected_gap(n, values, sorted(set(start) | set(s)), comp, gapname) if procs == case["processes"][0] else None
            if want is not None:
                results[tuple(s)] = want
                if base_gap is None:
                    base_gap = results[()]
            want = results[tuple(s)]
            if not abs(gap - want) <= tol:
                ctx.violation("gap-not-gap-of-start-plus-set", f"processes={procs}: set {s}: reported {gap!r}, gap of (start+set) "
                              f"{want!r} (n={n}, computer={comp}, gap={gapname}, start={start})", c)
            if tuple(s) in ev_gap and ev_gap[tuple(s)] != gap:
                ctx.violation("returned-gap-differs-from-worker-gap", f"processes={procs}: set {s}: worker computed "
                              f"{ev_gap[tuple(s)]!r}, parent received {gap!r}", c)
            if procs == case["processes"][0]:
                ctx.case((values, start, s, comp, gapname), abs(want - base_gap) > tol,
                         sample=({"n": n, "computer": comp, "gap": gapname, "start": start, "set": s, "value": gap,
                                  "processes": case["processes"]} if len(s) == 2 and s[0] == unknown[0] else None))
        vec = [float(g).hex() for _, g in res]
        if "first" not in results:
            results["first"] = (procs, vec)
        else:
            ctx.count("cross_process_comparisons")
            if results["first"][1] != vec:
                i = next(i for i, (a, b) in enumerate(zip(results["first"][1], vec)) if a != b)
                ctx.violation("result-depends-on-process-count", f"processes={results['first'][0]} vs {procs}: set {want_sets[i]} "
                              f"{float.fromhex(results['first'][1][i])!r} vs {float.fromhex(vec[i])!r} (n={n}, computer={comp})", case)
    # meta game (defined over the minimal starting knowledge)
    if sorted(start) == sorted(minimal_masks(n)):
        inc = sut.new_game(n, BOUNDS[comp])
        mg = MetaGame(full, inc, GAP_FUNCTIONS[gapname])
        players = [c.id for c in mg.players]
        queries = want_sets[:: max(1, len(want_sets) // 40)]
        queries = queries + [[]] + queries[:3][::-1] + [[]]          # the SAME object is asked again, the empty set after non-empty ones
        if rng_meta.random() < 0.5:
            rng_meta.shuffle(queries)
        for s in queries:
            mc = Coalition.from_players([players.index(m) for m in s])
            got = float(mg.get_value(mc))
            ctx.count("metagame_values")
            if not abs(got - results[tuple(s)]) <= tol:
                ctx.violation("metagame-value-differs", f"MetaGame.get_value for set {s} = {got!r}, search/reference {results[tuple(s)]!r} "
                              f"(n={n}, computer={comp}, gap={gapname})", case)


def best_states_case(ctx, case, logpath) -> None:
    from incomplete_cooperative.run.best_states import get_best_exploitability
    from incomplete_cooperative.run.model import ModelInstance
    n, comp, gapname, k, reps = case["n"], case["computer"], case["gap"], case["k"], case["samples"]
    inst = ModelInstance(number_of_players=n, game_class=comp, game_generator=case["generator"], gap_function=gapname,
                         seed=case["seed"])
    rec = Recorder(inst.game_generator_fn, case.get("scale", 1.0))
    inst.game_generator_fn = rec
    env = inst.get_env()
    try:
        best, best_actions = get_best_exploitability(env, k, reps, GAP_FUNCTIONS[gapname], processes=case["processes"][0])
    except Exception as exc:
        ctx.violation("best-states-raised", f"{type(exc).__name__}: {exc} ({case})", case)
        return
    events = read_log(logpath)
    ctx.count("best_states_runs")
    ctx.count("worker_events", len(events))
    games = rec.games[-reps:]
    start = sorted(minimal_masks(n))
    unknown = gen.explorable(n)
    scale = max(float(np.max(np.abs(np.array(g)))) for g in games)
    tol = sut.gap_tol(n, scale)
    if len(events) != reps * sum(1 for i in range(k + 1) for _ in combinations(unknown, i)):
        ctx.violation("sets-not-evaluated-exactly-once", f"best-states: {len(events)} worker events for {reps} sampled games, k={k}", case)
    prev_mean = None
    for size in range(k + 1):
        table = {s: [expected_gap(n, g, sorted(set(start) | set(s)), comp, gapname) for g in games]
                 for s in combinations(unknown, size)}
        means = {s: float(np.mean(v)) for s, v in table.items()}
        opt = min(means.values())
        row = np.array(best[size], dtype=float)
        ctx.count("sets_checked", len(table))
        if not abs(float(np.mean(row)) - opt) <= tol:
            ctx.violation("best-states-not-minimum", f"size {size}: reported mean gap {float(np.mean(row))!r}, brute-force minimum "
                          f"{opt!r} (n={n}, computer={comp}, gap={gapname}, samples={reps})", case)
        rep_set = tuple(sorted(best_actions[size]))
        if rep_set not in table or not np.allclose(row, table[rep_set], rtol=0, atol=tol):
            ctx.violation("best-states-set-does-not-attain", f"size {size}: reported set {rep_set} with row {row.tolist()} does not "
                          f"reproduce its gaps {table.get(rep_set)}", case)
        if prev_mean is not None and float(np.mean(row)) > prev_mean + tol:
            ctx.violation("best-curve-increasing", f"size {size}: mean gap {float(np.mean(row))!r} > previous {prev_mean!r}", case)
        prev_mean = float(np.mean(row))
        ctx.case((games, size, comp, gapname), size > 0 and abs(opt - means.get((), opt)) >= 0,
                 sample={"n": n, "generator": case["generator"], "computer": comp, "gap": gapname, "size": size,
                         "best_set": list(rep_set), "mean_gap": float(np.mean(row))} if size == 1 else None)


def run(ctx) -> None:
    rng = ctx.rng
    quick = ctx.tier == "quick"
    venv.WORK_DIR.mkdir(parents=True, exist_ok=True)
    logpath = str(venv.WORK_DIR / f"c11-events-{os.getpid()}.jsonl")
    install(logpath)
    proc_choices = [1, 2, 5] if quick else [1, 2, 3, 4, 5, 8, 16]
    comps = list(BOUNDS.keys())[:5]
    # guaranteed minimum, independent of the time budget
    v0 = gen.sa_game(rng, 3, "int")[0]
    search_case(ctx, {"n": 3, "family": "int", "values": v0, "computer": "superadditive_cached", "gap": "exploitability",
                      "start": sorted(minimal_masks(3)), "k": 3, "processes": [1, 2], "jitter": 0.0}, logpath)
    best_states_case(ctx, {"n": 3, "generator": "noisy_factory", "computer": "superadditive", "gap": "l1_norm", "k": 2, "samples": 2,
                           "processes": [2], "seed": rng.randint(0, 10**6), "scale": 1.0}, logpath)
    i = 0
    while not ctx.out_of_time(8.0):
        i += 1
        n = 3 if i % 3 == 0 else 4
        comp = rng.choice(comps)
        if comp.startswith("sam"):
            fam = rng.choice(gen.SAM_FAMILIES)
            values = gen.sam_game(rng, n, fam)[0]
        else:
            fam = rng.choice(gen.SA_FAMILIES)
            values = gen.sa_game(rng, n, fam)[0]
        sc = rng.choice(sut.SCALES)
        values = [v * sc for v in values]
        start = sorted(minimal_masks(n))
        if rng.random() < 0.4:
            start = sorted(set(start) | set(rng.sample(gen.explorable(n), rng.randint(1, 3))))
        nunknown = (1 << n) - len(start)
        k = rng.randint(0, nunknown) if n == 3 else rng.randint(1, min(nunknown, 3 if quick else 6))
        procs = rng.sample(proc_choices, 2 if quick else 3)
        if 1 not in procs and rng.random() < 0.5:
            procs[0] = 1
        search_case(ctx, {"n": n, "family": fam, "values": values, "computer": comp, "gap": rng.choice(list(GAP_FUNCTIONS)),
                          "start": start, "k": k, "processes": procs, "jitter": rng.choice([0.0, 0.002])}, logpath)
        if i % 4 == 0:
            g = rng.choice(["factory", "noisy_factory", "graph_cycle", "xos", "xs", "k_budget_generator", "factory_cheerleader_next",
                            "noisy_factory_square", "covg_fn_generator"])
            comp2 = rng.choice(comps) if g in ("xos", "xs", "k_budget_generator", "covg_fn_generator") else rng.choice(sut.SA_COMPUTERS)
            nn = rng.choice([3, 4])
            best_states_case(ctx, {"n": nn, "generator": g, "computer": comp2, "gap": rng.choice(list(GAP_FUNCTIONS)),
                                   "k": rng.randint(1, 3), "samples": rng.randint(1, 4 if quick else 5),
                                   "processes": [rng.choice(proc_choices)], "seed": rng.randint(0, 10**6),
                                   "scale": rng.choice([1.0, 1.0, 1e-10, 1e-10, 1e-7, 1e3, 1e6])}, logpath)


def replay(ctx, case) -> None:
    venv.WORK_DIR.mkdir(parents=True, exist_ok=True)
    logpath = str(venv.WORK_DIR / f"c11-events-{os.getpid()}.jsonl")
    install(logpath)
    if "samples" in case:
        best_states_case(ctx, case, logpath)
    else:
        search_case(ctx, case, logpath)

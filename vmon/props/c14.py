"""C14 — regret minimiser: constructible at every size; strategies are valid distributions.

Monitor: real GameRegretMinimizer objects are constructed for every (n, limit, variant) in range and driven
through iteration histories; after every regret_min_iteration() the cumulative arrays and the strategies returned
by the public methods are checked at every internal node, against invariants and against an independent float64
re-implementation on explicit sets; a saved-and-loaded twin must continue bit-identically.
"""
from __future__ import annotations

import tempfile
from itertools import combinations
from pathlib import Path

import numpy as np

from incomplete_cooperative.coalitions import Coalition
from incomplete_cooperative.regret import GameRegretMinimizer

from ..refmodel import popcount

LEVEL = "exploration"
RULE = ("case = (n, reveal limit, plain/plus, iteration history): n=3 limits 1..8, n=4 limits 1..12, n=5 limits 1..3 "
        "(1..2 in quick); histories of 1..20 iterations with non-negative terminal vectors (zeros, one-hot, random, "
        "1e6-scaled, 1e-6-scaled, integer). Checked after construction: rank<->id tables are inverse bijections over "
        "exactly the sets of size<=min(limit,#viable), ordered by size. Checked after every iteration at every "
        "internal node with an unrevealed coalition: current and average strategy are probability vectors (>=0, "
        "sum 1 within 1e-4) with no mass on revealed or non-viable coalitions; plain: sum_a sigma(a)*dRegret(a) ~ 0; "
        "plus: cumulative regret >= 0; no NaN/inf; state within 1e-3 of the float64 reference while the reference has "
        "no sign-ambiguous regret; save->load->iterate == iterate bit-for-bit. Distinct = hash(n, limit, plus, "
        "history, node); non-trivial = node has non-zero cumulative regret or strategy.")
SHARDS = {"quick": 4, "thorough": 16}
BUDGET = {"quick": 45, "thorough": 420}
REQUIRED = ["constructions", "bijection_checks", "node_checks", "orthogonality_checks", "plus_checks", "save_load_twins",
            "reference_comparisons"]


def viable(n):
    return [c for c in range(1 << n) if popcount(c) not in (0, 1, n)]


class RefRegret:
    """float64 regret matching(+) on explicit frozensets of player ids (0..N-1 = index among viable coalitions)."""

    def __init__(self, N, limit, plus):
        self.N, self.L, self.plus = N, min(limit, N), plus
        self.internal = [frozenset(c) for s in range(self.L) for c in combinations(range(N), s)]
        self.R = {x: np.zeros(N) for x in self.internal}
        self.S = {x: np.zeros(N) for x in self.internal}
        self.it = 0
        self.ambiguous = False

    def strategy(self, x):
        pos = np.where(self.R[x] > 0, self.R[x], 0.0)
        if pos.sum() == 0:
            pos = np.ones(self.N)
            pos[list(x)] = 0
        return pos / pos.sum()

    def iterate(self, terminal: dict):
        self.it += 1
        sig = {x: self.strategy(x) for x in self.internal}
        reach = {x: 0.0 for x in self.internal}
        reach[frozenset()] = 1.0
        for x in self.internal:                       # ordered by size
            if len(x) + 1 < self.L:
                for a in range(self.N):
                    if a not in x:
                        reach[x | {a}] += reach[x] * sig[x][a]
        E = dict(terminal)
        for x in reversed(self.internal):
            q = np.zeros(self.N)
            for a in range(self.N):
                if a not in x:
                    q[a] = E[x | {a}]
            E[x] = float((q * sig[x]).sum())
            w = self.it if self.plus else 1
            self.S[x] = self.S[x] + w * sig[x] * reach[x]
            self.R[x] = self.R[x] + q - E[x]
            if self.plus:
                self.R[x] = np.where(self.R[x] > 0, self.R[x], 0.0)
        scale = 1.0 + max((abs(v) for v in terminal.values()), default=0.0) * self.it
        for x in self.internal:
            free = [a for a in range(self.N) if a not in x]
            r = self.R[x][free]
            if np.any((np.abs(r) < 1e-3 * scale) & (r != 0)) or (np.all(r <= 0) and np.any(np.abs(r) < 1e-3 * scale) and np.any(r != 0)):
                self.ambiguous = True


def check_construction(ctx, case, rm) -> bool:
    n, limit = case["n"], case["limit"]
    N = (1 << n) - n - 2
    L = min(limit, N)
    ctx.count("bijection_checks")
    r2i = np.array(rm.meta_rank_to_id)
    want = sorted((sum(1 << p for p in c) for s in range(L + 1) for c in combinations(range(N), s)))
    if sorted(int(x) for x in r2i) != want:
        ctx.violation("rank-table-not-all-sets", f"rank->id table does not list exactly the sets of size <= {L} (n={n}, limit={limit})", case)
        return False
    sizes = [popcount(int(x)) for x in r2i]
    if any(a > b for a, b in zip(sizes, sizes[1:])):
        ctx.violation("rank-not-ordered-by-size", f"rank order is not by set size (n={n}, limit={limit})", case)
    i2r = np.array(rm.meta_id_to_rank)
    if any(int(i2r[int(x)]) != r for r, x in enumerate(r2i)):
        ctx.violation("rank-id-not-inverse", f"id->rank is not the inverse of rank->id (n={n}, limit={limit})", case)
        return False
    if rm.number_of_regret_minimizers != sum(1 for s in sizes if s < L):
        # not a verdict by itself (internal bookkeeping); its observable consequences are checked at the nodes
        ctx.count("internal_node_count_differs_from_tree")
    return True


def check_nodes(ctx, case, rm, prev_regret, ref: RefRegret | None, it: int, sample_nodes) -> None:
    n, limit, plus = case["n"], case["limit"], case["plus"]
    via = viable(n)
    N = len(via)
    reg = np.array(rm.cumulative_regret, dtype=np.float64)
    strat = np.array(rm.cumulative_strategy, dtype=np.float64)
    c = dict(case)
    c["failed_at_iteration"] = it
    if not (np.all(np.isfinite(reg)) and np.all(np.isfinite(strat))):
        ctx.violation("nan-in-regret-state", f"NaN/inf in cumulative arrays after iteration {it} (n={n}, limit={limit}, plus={plus})", c)
        return
    if plus:
        ctx.count("plus_checks")
        if np.any(reg < 0):
            ctx.violation("plus-regret-negative", f"negative cumulative regret {reg.min()!r} in the plus variant (n={n}, limit={limit})", c)
    mag = 1.0 + float(np.max(np.abs(reg))) + float(case["scale"])
    for rank in sample_nodes:
        mid = int(rm.meta_rank_to_id[rank])
        used = [p for p in range(N) if mid >> p & 1]
        if len(used) >= N:
            continue
        ctx.count("node_checks")
        cur = np.array(rm.regret_matching_strategy(mid), dtype=np.float64)
        avg = np.array(rm.get_average_strategy([Coalition(via[p]) for p in used]), dtype=np.float64)
        cur2 = np.array(rm.regret_matching_strategy([Coalition(via[p]) for p in used]), dtype=np.float64) if used else cur
        for name, vec in (("current", cur), ("average", avg)):
            if not np.all(np.isfinite(vec)):
                ctx.violation(f"{name}-strategy-nan", f"node {used}: {name} strategy contains NaN/inf after iteration {it} (n={n}, limit={limit}, plus={plus})", c)
                return
            if np.any(vec < 0) or abs(vec.sum() - 1.0) > 1e-4:
                ctx.violation(f"{name}-strategy-not-distribution", f"node {used}: {name} strategy min {vec.min()!r} sum {vec.sum()!r} "
                              f"after iteration {it} (n={n}, limit={limit}, plus={plus})", c)
        if cur.shape != (N,) or np.any(cur[used] != 0):
            ctx.violation("current-strategy-mass-on-revealed", f"node {used}: current strategy {cur.tolist()} (n={n}, limit={limit})", c)
        if not np.array_equal(cur, cur2):
            ctx.violation("strategy-lookup-by-coalitions-differs", f"node {used}: lookup by id and by coalition list differ", c)
        if avg.shape != (1 << n,):
            ctx.violation("average-strategy-wrong-shape", f"shape {avg.shape}", c)
        else:
            nonviable = [m for m in range(1 << n) if m not in via]
            if np.any(avg[nonviable] != 0) or np.any(avg[[via[p] for p in used]] != 0):
                ctx.violation("average-strategy-mass-on-revealed-or-nonviable", f"node {used}: average strategy {avg.tolist()} "
                              f"(n={n}, limit={limit})", c)
        if not plus and prev_regret is not None:
            ctx.count("orthogonality_checks")
            delta = reg[rank] - prev_regret[rank]
            sig = case["_sigma_before"][rank]
            dot = float((sig * delta).sum())
            if abs(dot) > 2e-4 * mag:
                ctx.violation("regret-increment-not-orthogonal", f"node {used}: sum_a sigma(a)*dRegret(a) = {dot!r} after iteration {it} "
                              f"(n={n}, limit={limit})", c)
        if ref is not None and not ref.ambiguous:
            x = frozenset(used)
            ctx.count("reference_comparisons")
            tol = 1e-3 * mag * max(1, it)
            if not np.allclose(reg[rank], ref.R[x], rtol=1e-3, atol=tol):
                ctx.violation("regret-differs-from-reference", f"node {used}: cumulative regret {reg[rank].tolist()} reference "
                              f"{ref.R[x].tolist()} after iteration {it} (n={n}, limit={limit}, plus={plus})", c)
            elif not np.allclose(strat[rank], ref.S[x], rtol=1e-3, atol=1e-3 * max(1, it * (it if plus else 1))):
                ctx.violation("cumulative-strategy-differs-from-reference", f"node {used}: cumulative strategy {strat[rank].tolist()} "
                              f"reference {ref.S[x].tolist()} after iteration {it} (n={n}, limit={limit}, plus={plus})", c)
        ctx.case((n, limit, plus, case["history_id"], it, rank), bool(np.any(reg[rank] != 0) or np.any(strat[rank] != 0)),
                 sample=({"n": n, "limit": limit, "plus": plus, "iteration": it, "node": used, "current": cur.tolist(),
                          "cumulative_regret": reg[rank].tolist()} if rank == 1 and it == 2 else None))


def terminal_vector(rng, kind, count):
    if kind == "zeros":
        return np.zeros(count)
    if kind == "onehot":
        v = np.zeros(count)
        v[rng.randrange(count)] = 1.0
        return v
    if kind == "int":
        return np.array([float(rng.randint(0, 5)) for _ in range(count)])
    if kind == "big":
        return np.array([rng.random() * 1e6 for _ in range(count)])
    if kind == "tiny":
        return np.array([rng.random() * 1e-6 for _ in range(count)])
    return np.array([rng.random() for _ in range(count)])


def run_case(ctx, case) -> None:
    import random as pyrandom
    n, limit, plus = case["n"], case["limit"], case["plus"]
    rng = pyrandom.Random(case["history_seed"])
    via = viable(n)
    N = len(via)
    L = min(limit, N)
    if rng.random() < 0.1:
        try:        # a failing call on ANOTHER object (wrong vector length), survived by the caller
            GameRegretMinimizer(3, 2, plus=plus).regret_min_iteration(np.zeros(7), [[Coalition(3)]])
        except Exception:
            pass
        ctx.count("poison_calls")
    try:
        rm = GameRegretMinimizer(n, limit, plus=plus)
    except Exception as exc:
        ctx.violation("constructor-raised", f"GameRegretMinimizer({n}, {limit}, plus={plus}) raised {type(exc).__name__}: {exc}", case)
        return
    ctx.count("constructions")
    ctx.seen("configs", f"{n}:{limit}:{plus}")
    if not check_construction(ctx, case, rm):
        return
    terminals = [frozenset(c) for c in combinations(range(N), L)]
    used_actions = [[Coalition(via[p]) for p in sorted(t)] for t in terminals]
    ninternal = rm.number_of_regret_minimizers
    use_ref = ninternal <= 400
    ref = RefRegret(N, limit, plus) if use_ref else None
    case = dict(case)
    case["history_id"] = case["history_seed"]
    case["scale"] = 0.0
    twin = None
    twin_at = rng.randint(0, max(0, case["iterations"] - 2)) if case["iterations"] >= 2 else None
    # initial strategies (before any iteration) are uniform over unrevealed
    nodes_all = list(range(ninternal))
    check_nodes(ctx, case, rm, None, None, 0, nodes_all if ninternal <= 200 else rng.sample(nodes_all, 100))
    for it in range(1, case["iterations"] + 1):
        kind = rng.choice(case["kinds"])
        vec = terminal_vector(rng, kind, len(terminals))
        case["scale"] = max(case["scale"], float(np.max(np.abs(vec))) if len(vec) else 0.0)
        nodes = nodes_all if ninternal <= 200 else rng.sample(nodes_all, 100)
        prev = np.array(rm.cumulative_regret, dtype=np.float64)
        if not plus:
            case["_sigma_before"] = {r: np.array(rm.regret_matching_strategy(int(rm.meta_rank_to_id[r])), dtype=np.float64) for r in nodes}
        try:
            with np.errstate(invalid="raise", divide="raise"):
                rm.regret_min_iteration(vec.copy(), used_actions)
                if twin is not None:
                    twin.regret_min_iteration(vec.copy(), used_actions)
        except Exception as exc:
            c = {k: v for k, v in case.items() if not k.startswith("_")}
            ctx.violation("iteration-raised", f"regret_min_iteration raised {type(exc).__name__}: {exc} at iteration {it} "
                          f"(n={n}, limit={limit}, plus={plus}, vector kind {kind})", c)
            return
        if ref is not None:
            ref.iterate({t: float(np.float32(v)) for t, v in zip(terminals, vec)})
        pub = {k: v for k, v in case.items() if not k.startswith("_")}
        pub["_sigma_before"] = case.get("_sigma_before")
        check_nodes(ctx, pub, rm, prev, ref, it, nodes)
        if twin is not None:
            same = (np.array_equal(rm.cumulative_regret, twin.cumulative_regret) and
                    np.array_equal(rm.cumulative_strategy, twin.cumulative_strategy) and rm.iteration == twin.iteration)
            if not same:
                c = {k: v for k, v in case.items() if not k.startswith("_")}
                ctx.violation("loaded-minimizer-diverges", f"saved-then-loaded minimiser differs from the original after iteration {it} "
                              f"(iteration counters {rm.iteration}/{twin.iteration}) (n={n}, limit={limit}, plus={plus})", c)
                twin = None
        if twin_at == it:
            ckpt = tempfile.mkdtemp(prefix="vmon-c14-")
            case["_ckpt"] = ckpt
            rm.save(Path(ckpt) / "rm")
            saved_state = (np.array(rm.cumulative_regret, copy=True), np.array(rm.cumulative_strategy, copy=True), rm.iteration)
            case["_saved_state"] = saved_state
            twin = GameRegretMinimizer.load(Path(ckpt) / "rm")
            ctx.count("save_load_twins")
            if twin.plus != rm.plus or twin.limit_of_revealed != rm.limit_of_revealed or twin.number_of_players != rm.number_of_players:
                ctx.violation("loaded-minimizer-parameters-differ", "plus/limit/players not restored", {k: v for k, v in case.items() if not k.startswith("_")})
    if case.get("_ckpt"):
        # the checkpoint is used a SECOND time, after the first restored copy has been iterated: it must still hold the saved state
        import shutil
        try:
            again = GameRegretMinimizer.load(Path(case["_ckpt"]) / "rm")
            sr, ss, si = case["_saved_state"]
            ctx.count("checkpoints_restored_twice")
            if not (np.array_equal(np.array(again.cumulative_regret), sr) and np.array_equal(np.array(again.cumulative_strategy), ss)
                    and again.iteration == si):
                c = {k: v for k, v in case.items() if not k.startswith("_")}
                ctx.violation("checkpoint-changed-by-continuing-a-restored-copy", f"restoring the same checkpoint a second time (after a "
                              f"first restored copy ran further iterations) does not give the saved state (n={n}, limit={limit}, plus={plus})", c)
        except Exception as exc:
            c = {k: v for k, v in case.items() if not k.startswith("_")}
            ctx.violation("iteration-raised", f"second load of the checkpoint raised {type(exc).__name__}: {exc}", c)
        finally:
            twin = None
            shutil.rmtree(case["_ckpt"], ignore_errors=True)
    if ref is not None and ref.ambiguous:
        ctx.count("reference_sign_ambiguous_histories")


def run(ctx) -> None:
    rng = ctx.rng
    quick = ctx.tier == "quick"
    configs = [(3, l) for l in range(1, 9)] + [(4, l) for l in range(1, 13)] + [(5, 1), (5, 2)] + ([] if quick else [(5, 3)])
    work = [(n, l, p) for (n, l) in configs for p in (False, True)]
    work = [w for i, w in enumerate(work) if i % ctx.nshards == ctx.shard]
    kinds_all = ["zeros", "onehot", "random", "int", "big", "tiny"]
    rounds = 0
    while not ctx.out_of_time(3.0):
        for n, l, p in work:
            if ctx.out_of_time(3.0):
                break
            heavy = (n == 4 and l >= 5) or n == 5
            its = rng.randint(1, 4 if heavy else 20) if rounds else (2 if heavy else 5)
            kinds = rng.choice([kinds_all, ["random"], ["onehot", "zeros"], ["big"], ["tiny", "random"], ["int"]])
            run_case(ctx, {"n": n, "limit": l, "plus": p, "iterations": its, "kinds": kinds,
                           "history_seed": rng.randint(0, 2**31)})
        rounds += 1
        if rounds > 400:
            break


def replay(ctx, case) -> None:
    run_case(ctx, {k: v for k, v in case.items() if k not in ("failed_at_iteration", "history_id", "scale")})

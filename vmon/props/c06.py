"""C06 — the Shapley value is the average marginal contribution over all orderings.

Monitor: the two real entry points are called on real game objects (value tables and graph games); results are
compared with the n!-orderings definition in exact rationals and with the laws that follow from it.
"""
from __future__ import annotations

import numpy as np

from incomplete_cooperative.coalitions import Coalition
from incomplete_cooperative.game import IncompleteCooperativeGame
from incomplete_cooperative.graph_game import GraphCooperativeGame
from incomplete_cooperative.shapley import compute_shapley_value, compute_shapley_value_for_player

from ..refmodel import fr, members, popcount, ref_shapley_perm, ref_shapley_subset

LEVEL = "exploration"
RULE = ("case = complete game (n in 1..10; integer, dyadic, float, negative, non-superadditive, unit basis games e_S "
        "for every S at n<=6, games with an inserted null player, graph games through the Game protocol); "
        "compute_shapley_value / compute_shapley_value_for_player run on the real objects. Oracles: average marginal "
        "contribution over all n! orderings in exact rationals (n<=7 quick, 8 thorough; subset formula, itself "
        "cross-checked against the orderings, above), efficiency, symmetry under a random relabelling, null player, "
        "linearity (using the library's game addition), equality of the two entry points. Tolerance "
        "1e-10*(1+sum|v|). Distinct = hash(values); non-trivial = at least two different Shapley values. Additionally one "
        "SYMBOLIC execution per n=1..6 (7 in thorough): values are linear forms (vmon/linform.py) pushed through both real "
        "entry points; every coefficient is compared with the orderings definition, which decides it for all real games of that n. "
        "Beyond the reach of the n! reference (n=11..18 quick, ..20 thorough): weighted sums of unanimity games against their closed form.")
SHARDS = {"quick": 4, "thorough": 16}
BUDGET = {"quick": 35, "thorough": 360}
REQUIRED = ["orderings_definition_checks", "unit_basis_games", "graph_games", "linearity_checks", "symmetry_checks",
            "null_player_checks", "entry_point_pairs", "large_n_unanimity_games"]


_REUSE: dict = {}


def real_game(values, reuse_rng=None):
    """A real value-table game; with reuse_rng, half of the time the SAME object as for an earlier game of this size is
    re-filled (a memo keyed by object identity or size would go stale)."""
    n = (len(values) - 1).bit_length()
    if reuse_rng is not None and n in _REUSE and reuse_rng.random() < 0.5:
        g = _REUSE[n]
    else:
        g = IncompleteCooperativeGame(n)
        _REUSE[n] = g
    g.set_values(np.array(values, dtype=np.float64))
    return g


class _Raising:
    """A game whose value access fails: a computation that raises mid-way and is survived by the caller."""

    def __init__(self, n):
        self.number_of_players = n

    def get_values(self, coalitions=None):
        raise RuntimeError("vmon poison game")

    get_value = get_values

    def copy(self):
        return self

    def __add__(self, other):
        return self


def poison(ctx, n):
    for f in (lambda: list(compute_shapley_value(_Raising(n))), lambda: compute_shapley_value_for_player(0, _Raising(n))):
        try:
            f()
        except Exception:
            pass
    ctx.count("poison_calls")


def shapley_both(ctx, game, n, case):
    all_at_once = [float(x) for x in compute_shapley_value(game)]
    single = [float(compute_shapley_value_for_player(i, game)) for i in range(n)]
    ctx.count("entry_point_pairs", n)
    scale = 1.0 + max(abs(x) for x in all_at_once + single)
    for i in range(n):
        if not abs(all_at_once[i] - single[i]) <= 1e-12 * scale:
            ctx.violation("entry-points-disagree", f"player {i}: all-players {all_at_once[i]!r} vs single {single[i]!r} (n={n})", case)
    return all_at_once


def run_case(ctx, case) -> None:
    values = case["values"]
    n = case["n"]
    size = 1 << n
    rng = ctx.rng
    try:
        if case.get("graph") is not None:
            game = GraphCooperativeGame(np.array(case["graph"], dtype=np.float64))
            values = [float(x) for x in game.get_values()]
            ctx.count("graph_games")
        else:
            game = real_game(values, rng)
            ctx.count("games_on_reused_object" if game is _REUSE.get(n) else "games_on_fresh_object")
        if rng.random() < 0.03:
            poison(ctx, n)
        got = shapley_both(ctx, game, n, case)
    except Exception as exc:
        ctx.violation("shapley-raised", f"{type(exc).__name__}: {exc} (n={n})", case)
        return
    if case.get("graph") is None and n >= 2 and rng.random() < 0.3:
        # the all-players entry point returns an iterator: two of them consumed in lock-step must not disturb each other
        other_vals = [0.0] + [float(rng.randint(-5, 5)) for _ in range(size - 1)]
        g_o = real_game(other_vals)
        alone = [float(x) for x in compute_shapley_value(g_o)]
        pairs = list(zip(compute_shapley_value(game), compute_shapley_value(g_o)))
        ctx.count("interleaved_iterator_pairs")
        if [float(a) for a, _ in pairs] != got or [float(b) for _, b in pairs] != alone:
            ctx.violation("interleaved-iterators-disturb-each-other", f"two compute_shapley_value iterators consumed in lock-step give "
                          f"{[float(a) for a, _ in pairs]} / {[float(b) for _, b in pairs]} instead of {got} / {alone} (n={n})", case)
    fv = [fr(x) for x in values]
    mag = float(sum(abs(x) for x in fv))
    tol = 1e-10 * mag + 1e-300
    if n <= case.get("perm_max", 7):
        want = ref_shapley_perm(n, fv)
        ctx.count("orderings_definition_checks")
        if n >= 2 and n <= 6 and rng.random() < 0.2:
            if ref_shapley_subset(n, fv) != want:
                ctx.mark_inconclusive("reference subset formula disagrees with the orderings definition (harness)")
            ctx.count("reference_self_checks")
    else:
        want = ref_shapley_subset(n, fv)
        ctx.count("subset_formula_checks")
    for i in range(n):
        if not abs(got[i] - float(want[i])) <= tol:
            ctx.violation("not-average-marginal-contribution", f"player {i}: computed {got[i]!r}, definition {float(want[i])!r} "
                          f"(n={n}, family={case['family']})", case)
            break
    if not abs(sum(got) - float(fv[size - 1])) <= tol:
        ctx.violation("not-efficient", f"sum of Shapley values {sum(got)!r} != v(N) {float(fv[-1])!r} (n={n})", case)
    # symmetry: relabel players by a random permutation, through the real code again
    if n >= 2 and case.get("graph") is None:
        perm = list(range(n))
        rng.shuffle(perm)
        pv = [0.0] * size
        for s in range(size):
            t = 0
            for p in members(s):
                t |= 1 << perm[p]
            pv[t] = values[s]
        got_p = [float(x) for x in compute_shapley_value(real_game(pv))]
        ctx.count("symmetry_checks")
        for i in range(n):
            if not abs(got_p[perm[i]] - got[i]) <= tol:
                c = dict(case)
                c["perm"] = perm
                ctx.violation("relabelling-not-respected", f"player {i}->{perm[i]}: {got[i]!r} vs {got_p[perm[i]]!r} (n={n})", c)
                break
        # null player inserted at a random position
        if n <= 9:
            pos = rng.randrange(n + 1)
            nv = []
            for s in range(1 << (n + 1)):
                low = s & ((1 << pos) - 1)
                high = s >> (pos + 1)
                nv.append(values[low | (high << pos)])
            got_n = [float(x) for x in compute_shapley_value(real_game(nv))]
            ctx.count("null_player_checks")
            if not abs(got_n[pos]) <= tol:
                ctx.violation("null-player-nonzero", f"null player at {pos} gets {got_n[pos]!r} (n={n + 1})", case)
            rest = got_n[:pos] + got_n[pos + 1:]
            if any(abs(a - b) > tol for a, b in zip(rest, got)):
                ctx.violation("null-player-changes-others", f"inserting a null player changed the others: {got} -> {rest}", case)
        # linearity, via the library's own addition of games
        a = rng.randint(-3, 3)
        other = [0.0] + [float(rng.randint(-5, 5)) for _ in range(size - 1)]
        g2 = real_game(other)
        comb = real_game([a * x for x in values]) + g2
        got_c = [float(x) for x in compute_shapley_value(comb)]
        got_o = [float(x) for x in compute_shapley_value(g2)]
        ctx.count("linearity_checks")
        if any(abs(got_c[i] - (a * got[i] + got_o[i])) > tol * (1 + abs(a)) + 1e-10 * 5 * size for i in range(n)):
            c = dict(case)
            c["other"], c["a"] = other, a
            ctx.violation("not-linear", f"phi({a}v+w) != {a}phi(v)+phi(w) (n={n})", c)
    ctx.case(values, len({round(x, 12) for x in got}) >= 2,
             sample={"n": n, "family": case["family"], "values_head": values[:8], "shapley": got})


class SymbolicCompleteGame:
    """Game protocol object whose values are symbolic linear forms; v(empty) = 0."""

    def __init__(self, n):
        from ..linform import Lin
        self.number_of_players = n
        self._v = np.empty(1 << n, dtype=object)
        self._v[:] = [Lin()] + [Lin.var(f"v{m}") for m in range(1, 1 << n)]

    def get_values(self, coalitions=None):
        return self._v.copy() if coalitions is None else self._v[[c.id for c in coalitions]]

    def get_value(self, coalition):
        return self._v[coalition.id]

    def copy(self):
        return self

    def __add__(self, other):
        raise NotImplementedError


def symbolic_case(ctx, n: int) -> None:
    """One execution of each real entry point on symbolic values decides the definition for ALL real games of size n."""
    from fractions import Fraction
    case = {"n": n, "family": "symbolic", "symbolic": True, "values": []}
    size = 1 << n
    try:
        g = SymbolicCompleteGame(n)
        forms = list(compute_shapley_value(g))
        singles = [compute_shapley_value_for_player(i, g) for i in range(n)]
        forms[0].c
    except Exception as exc:
        ctx.count("symbolic_execution_unsupported")      # see C05: my symbolic number type is not part of the property
        ctx.seen("symbolic_unsupported_reasons", f"{type(exc).__name__}: {str(exc)[:80]}")
        return
    ctx.count("symbolic_executions")
    for m in range(1, size):
        unit = [Fraction(0)] * size
        unit[m] = Fraction(1)
        phi = ref_shapley_perm(n, unit)          # coefficient of v(m) in each player's value, from the n! orderings
        for i in range(n):
            ctx.count("symbolic_coefficients_checked")
            for label, f in (("all-players", forms[i]), ("single-player", singles[i])):
                got = f.c.get(f"v{m}", 0.0)
                if abs(got - float(phi[i])) > 1e-12:
                    ctx.violation("not-average-marginal-contribution", f"symbolic run ({label} entry point), n={n}: coefficient of "
                                  f"v({m}) in player {i}'s value is {got!r}, the orderings definition gives {float(phi[i])!r}", case)
                    return
    ctx.case(("symbolic", n), True, sample={"n": n, "family": "symbolic", "player0_form_head": dict(sorted(forms[0].c.items())[:6])})


def unanimity_case(ctx, n: int) -> None:
    """Large player counts (beyond the n! reference): weighted sums of unanimity games have the closed form
    phi_i = sum_T w_T / |T| [i in T]; both real entry points are compared with it for every player."""
    from fractions import Fraction
    rng = ctx.rng
    size = 1 << n
    carriers = []
    for _ in range(3):
        k = rng.randint(1, n)
        carriers.append((sum(1 << p for p in rng.sample(range(n), k)), rng.randint(-4, 9)))
    carriers.append(((1 << (n - 1)) | 1, 5))          # always involve the highest-numbered player
    ids = np.arange(size)
    vals = np.zeros(size)
    for T, w in carriers:
        vals += w * ((ids & T) == T)
    case = {"n": n, "family": "unanimity_sum", "carriers": carriers, "values": []}
    g = IncompleteCooperativeGame(n)
    g.set_values(vals)
    want = [sum(Fraction(w, popcount(T)) for T, w in carriers if T >> i & 1) for i in range(n)]
    try:
        players = list(range(n)) if n <= 14 else sorted(set(rng.sample(range(n), 4)) | {0, n - 1, 15 if n > 15 else 0, 16 if n > 16 else 0})
        got = {i: float(compute_shapley_value_for_player(i, g)) for i in players}
        if n <= 13:
            allp = [float(x) for x in compute_shapley_value(g)]
            got.update({("all", i): allp[i] for i in range(n)})
    except Exception as exc:
        ctx.violation("shapley-raised", f"{type(exc).__name__}: {exc} (unanimity sum, n={n})", case)
        return
    ctx.count("large_n_unanimity_games")
    for key, val in got.items():
        i = key[1] if isinstance(key, tuple) else key
        if abs(val - float(want[i])) > 1e-9 * (1 + sum(abs(w) for _, w in carriers)):
            ctx.violation("not-average-marginal-contribution", f"n={n}, weighted unanimity games {carriers}: player {i} gets {val!r}, "
                          f"closed form {float(want[i])!r}", case)
            break
    ctx.case(("unanimity", n, tuple(carriers)), True,
             sample={"n": n, "family": "unanimity_sum", "carriers": carriers, "checked_players": [k for k in got if not isinstance(k, tuple)]})


def gen_game(rng, n):
    size = 1 << n
    fam = rng.choice(["int", "dyadic", "float", "negative", "big", "sparse", "offset", "offset_debt", "minor_player"])
    if fam == "int":
        v = [float(rng.randint(-9, 9)) for _ in range(size)]
    elif fam == "dyadic":
        v = [rng.randint(-80, 80) / 16 for _ in range(size)]
    elif fam == "float":
        v = [rng.uniform(-5, 5) for _ in range(size)]
    elif fam == "negative":
        v = [-rng.random() * 100 for _ in range(size)]
    elif fam in ("offset", "offset_debt"):
        # every non-empty coalition is worth a huge prize (or debt) plus small per-player amounts: marginal
        # contributions are tiny RELATIVE to the values, which relative-tolerance shortcuts would call zero
        base = 1e6 if fam == "offset" else -1e7
        w = [rng.uniform(0.1, 3) for _ in range(n)]
        v = [base + sum(w[i] for i in members(s)) + (rng.random() if rng.random() < 0.3 else 0.0) for s in range(size)]
    elif fam == "minor_player":
        # one player worth nothing alone who adds a few units to coalitions worth ~1e6 (not a null player!)
        i = rng.randrange(n)
        w = {t: (0.0 if t == 0 else 1e6 * rng.randint(1, 9) + rng.uniform(0, 3)) for t in range(size) if not t >> i & 1}
        v = [w[s & ~(1 << i)] + (rng.uniform(0.5, 3) if (s >> i & 1 and s != 1 << i) else 0.0) for s in range(size)]
    elif fam == "big":
        v = [rng.uniform(-1e6, 1e6) for _ in range(size)]
    else:
        v = [float(rng.randint(1, 5)) if rng.random() < 0.15 else 0.0 for _ in range(size)]
    if rng.random() < 0.15:
        k2 = rng.choice([-60, -40, 30])          # the same game in other units (tiny values must not be "rounding noise")
        v = [x * 2.0 ** k2 for x in v]
        fam = f"{fam}*2^{k2}"
    v[0] = 0.0
    return fam, v


def run(ctx) -> None:
    rng = ctx.rng
    quick = ctx.tier == "quick"
    perm_max = 7 if quick else 8
    for n in range(1, 7 if quick else 8):
        if n % ctx.nshards == ctx.shard % ctx.nshards or n <= 4:
            symbolic_case(ctx, n)
    # unit basis games e_S for every S (n <= 5 quick / 6 thorough), sharded
    for n in range(1, 6 if quick else 7):
        for s in range(1, 1 << n):
            if (s + n) % ctx.nshards != ctx.shard:
                continue
            v = [0.0] * (1 << n)
            v[s] = 1.0
            run_case(ctx, {"n": n, "family": "unit_basis", "values": v, "perm_max": perm_max})
            ctx.count("unit_basis_games")
    for n in ([11, 13, 16, 17][ctx.shard % 4:][:1] + [18 if ctx.shard % 2 else 12]) if quick else range(11, 21):
        if quick or n % ctx.nshards == ctx.shard % ctx.nshards or n in (17, 18):
            unanimity_case(ctx, n)
    m0 = np.array([[float(rng.randint(0, 3)) for _ in range(4)] for _ in range(4)])      # guaranteed minimum: one graph game
    run_case(ctx, {"n": 4, "family": "graph", "values": [], "graph": m0.tolist(), "perm_max": perm_max})
    ns = [1, 2, 3, 3, 4, 4, 5, 5, 6, 6, 7, 8, 9] + ([10] if not quick else [])
    while not ctx.out_of_time(2.0):
        n = rng.choice(ns)
        if n >= 2 and rng.random() < 0.12:
            m = np.array([[rng.choice([0.0, rng.random(), float(rng.randint(0, 3))]) for _ in range(n)] for _ in range(n)])
            run_case(ctx, {"n": n, "family": "graph", "values": [], "graph": m.tolist(), "perm_max": perm_max})
        else:
            fam, v = gen_game(rng, n)
            run_case(ctx, {"n": n, "family": fam, "values": v, "perm_max": perm_max})
        ctx.count(f"n{n}")
    if quick and ctx.shard == 0:
        fam, v = gen_game(rng, 10)
        run_case(ctx, {"n": 10, "family": fam, "values": v, "perm_max": perm_max})
        ctx.count("n10")


def replay(ctx, case) -> None:
    if case.get("family") == "unanimity_sum":
        unanimity_case(ctx, case["n"])
    elif case.get("symbolic"):
        symbolic_case(ctx, case["n"])
    else:
        run_case(ctx, case)

"""C07 — more information never hurts: intervals shrink, every gap function is non-increasing.

Monitor: one long-lived real game object per (game, computer) is driven along reveal / un-reveal edges of the
knowledge lattice; the table and the four real gap functions are read before and after every edge.
"""
from __future__ import annotations

import numpy as np

from incomplete_cooperative.bounds import BOUNDS
from incomplete_cooperative.coalitions import Coalition
from incomplete_cooperative.exploitability import compute_exploitability
from incomplete_cooperative.norms import l1_norm, l2_norm, linf_norm

from .. import boundcore, gen, sut
from ..refmodel import minimal_masks, ref_gap_float

LEVEL = "exploration"
RULE = ("case = traversal of one edge K -> K+{S} of the lattice of knowledge sets (as a reveal, or as an un-reveal "
        "checked as the inverse edge) on a long-lived real game object, followed by compute_bounds(); games of the "
        "class matching the computer (superadditive for the SA computers, superadditive-monotone for sam_apx_*). "
        "Every edge of the lattice in both directions for n=3 (all six registered computers) and n=4 (cached, "
        "sam_apx_1/10 in quick; all but sam_apx_1000 in thorough), random full reveal orders for n=5,6. Oracles: "
        "lower never decreases / upper never increases across a reveal (== on exact families, 64*eps*n*scale "
        "otherwise); each real gap function (exploitability, l1, l2, linf) equals the reference gap of the observed "
        "table, is non-increasing, >= 0 and ~0 at full knowledge. Distinct = hash(values, K, S, computer); non-trivial "
        "= the table changed across the edge. The same is observed through ICG_Gym: several episodes on one env (un-steps back "
        "to the initial knowledge before the next reset), no reveal may widen an interval or lower the reward.")
SHARDS = {"quick": 4, "thorough": 16}
BUDGET = {"quick": 45, "thorough": 420}
REQUIRED = ["edges_checked", "gap_values_checked", "full_knowledge_states", "euler_walks", "sam_edges", "sa_edges", "env_reveal_steps"]

GAPS = {"exploitability": compute_exploitability, "l1_norm": l1_norm, "l2_norm": l2_norm, "linf_norm": linf_norm}


def observe(game, n):
    known, lo, up = sut.table(game)
    gaps = {k: float(f(game)) for k, f in GAPS.items()}
    return known, lo, up, gaps


def check_gaps(ctx, case, n, lo, up, gaps, scale, K) -> None:
    tol = sut.gap_tol(n, scale)
    for k, v in gaps.items():
        ctx.count("gap_values_checked")
        want = ref_gap_float(k, n, lo.tolist(), up.tolist())
        if not abs(v - want) <= tol:
            ctx.violation("gap-function-miswired", f"{k} returned {v!r}, reference on the observed table {want!r} "
                          f"(n={n}, computer={case['computer']}, K={K})", case)
        if v < -tol:
            ctx.violation("gap-negative", f"{k} = {v!r} < 0 (n={n}, computer={case['computer']}, K={K})", case)


def walk(ctx, case) -> None:
    """case: n, values, exact, computer, toggles (list of masks), family."""
    n, values, exact, comp = case["n"], case["values"], case["exact"], case["computer"]
    truth = np.array(values)
    scale = float(np.max(np.abs(truth))) or 1.0
    slack = 0.0 if exact else sut.ulp_slack(n, scale)
    gslack = sut.gap_tol(n, scale)
    game = sut.object_for_case(ctx, case, comp, p_reuse=1.0 if case.get("_force_reuse") else 0.5)
    size = 1 << n
    try:
        sut.set_knowledge(game, values, sorted(minimal_masks(n)))
        game.compute_bounds()
        cur = set()
        prev = observe(game, n)
        check_gaps(ctx, case, n, prev[1], prev[2], prev[3], scale, sorted(cur))
        for idx, m in enumerate(case["toggles"]):
            reveal = m not in cur
            if reveal:
                game.reveal_value(values[m], Coalition(m))
                cur.add(m)
            else:
                game.unreveal_value(Coalition(m))
                cur.discard(m)
            game.compute_bounds()
            now = observe(game, n)
            check_gaps(ctx, case, n, now[1], now[2], now[3], scale, sorted(cur))
            less, more = (prev, now) if reveal else (now, prev)   # `more` has one more coalition known
            ctx.count("edges_checked")
            ctx.count("sam_edges" if comp.startswith("sam") else "sa_edges")
            bad = None
            if np.any(more[1] < less[1] - slack):
                i = int(np.nonzero(more[1] < less[1] - slack)[0][0])
                bad = ("lower-decreased-on-reveal", f"coalition {i}: lower {less[1][i]!r} -> {more[1][i]!r}")
            elif np.any(more[2] > less[2] + slack):
                i = int(np.nonzero(more[2] > less[2] + slack)[0][0])
                bad = ("upper-increased-on-reveal", f"coalition {i}: upper {less[2][i]!r} -> {more[2][i]!r}")
            else:
                for k in GAPS:
                    if more[3][k] > less[3][k] + gslack:
                        bad = ("gap-increased-on-reveal", f"{k}: {less[3][k]!r} -> {more[3][k]!r}")
                        break
            if bad:
                c = dict(case)
                c["toggles"] = case["toggles"][: idx + 1]
                ctx.violation(bad[0], f"{bad[1]} when {'revealing' if reveal else 'un-revealing (inverse edge)'} {m} "
                              f"(n={n}, computer={comp}, family={case['family']}, knowledge after={sorted(cur)})", c)
            if len(cur) == size - n - 2:
                ctx.count("full_knowledge_states")
                for k, v in now[3].items():
                    if abs(v) > gslack:
                        ctx.violation("gap-nonzero-at-full-knowledge", f"{k} = {v!r} with every value revealed (n={n}, computer={comp})", case)
            changed = not (np.array_equal(prev[1], now[1]) and np.array_equal(prev[2], now[2]))
            ctx.case((values, sorted(cur), m, comp), changed,
                     sample=({"n": n, "family": case["family"], "computer": comp, "toggled": m, "reveal": reveal,
                              "known_after": sorted(cur), "gaps_before": prev[3], "gaps_after": now[3]} if idx == 3 else None))
            prev = now
    except Exception as exc:
        ctx.violation("raised-during-walk", f"{type(exc).__name__}: {exc} (n={n}, computer={comp})", case)


def env_episodes(ctx, case) -> None:
    """The same monotonicity observed through the environment (the anchor icg_gym.py): several episodes on ONE env,
    each followed by taking moves back (un-steps) before the next reset; within an episode no reveal may widen an
    interval or lower the reward."""
    import random as pyrandom
    from incomplete_cooperative.run.model import ModelInstance
    from .c09 import Recorder
    n, comp, gapname = case["n"], case["computer"], case["gap"]
    rng = pyrandom.Random(case["seed"])
    inst = ModelInstance(number_of_players=n, game_class=comp, game_generator=case["generator"], gap_function=gapname, seed=case["seed"])
    inst.game_generator_fn = Recorder(inst.game_generator_fn, case.get("scale", 1.0), case.get("offset", 0.0))
    try:
        env = inst.get_env()
        nexp = len(env.explorable_coalitions)
        for ep in range(case["episodes"]):
            env.reset()
            values = np.array(env.full_game.get_values(), dtype=np.float64)
            scale = float(np.max(np.abs(values))) or 1.0
            slack = sut.ulp_slack(n, scale)
            gslack = sut.gap_tol(n, scale)
            _, lo, up = sut.table(env.incomplete_game)
            reward = float(env.reward)
            order = list(range(nexp))
            rng.shuffle(order)
            taken = []
            for a in order[: rng.randint(1, nexp)]:
                ret = env.step(a)
                taken.append(a)
                _, nlo, nup = sut.table(env.incomplete_game)
                nreward = float(ret[1])
                ctx.count("edges_checked")
                ctx.count("env_reveal_steps")
                ctx.count("sam_edges" if comp.startswith("sam") else "sa_edges")
                bad = None
                if np.any(nlo < lo - slack):
                    i = int(np.nonzero(nlo < lo - slack)[0][0])
                    bad = ("lower-decreased-on-reveal", f"coalition {i}: lower {lo[i]!r} -> {nlo[i]!r}")
                elif np.any(nup > up + slack):
                    i = int(np.nonzero(nup > up + slack)[0][0])
                    bad = ("upper-increased-on-reveal", f"coalition {i}: upper {up[i]!r} -> {nup[i]!r}")
                elif nreward < reward - gslack:
                    bad = ("gap-increased-on-reveal", f"env reward {reward!r} -> {nreward!r} ({gapname})")
                elif nreward > gslack:
                    bad = ("gap-negative", f"env reward {nreward!r} > 0")
                if bad:
                    c = dict(case)
                    c["failed_in_episode"] = ep
                    ctx.violation(bad[0], f"{bad[1]} after env.step({a}) in episode {ep} (taken {taken}, n={n}, generator="
                                  f"{case['generator']}, computer={comp})", c)
                    return
                ctx.case((values.tolist(), tuple(taken), comp, "env"), not (np.array_equal(lo, nlo) and np.array_equal(up, nup)))
                lo, up, reward = nlo, nup, nreward
            if rng.random() < 0.6:
                rng.shuffle(taken)
                for a in taken:                      # back to the initial knowledge before the next reset
                    env.unstep(a)
    except Exception as exc:
        ctx.violation("raised-during-walk", f"{type(exc).__name__}: {exc} (env episodes, n={n}, computer={comp})", case)


def game_for(rng, n, comp):
    if comp.startswith("sam"):
        fam = rng.choice(gen.SAM_FAMILIES)
        values, exact = gen.sam_game(rng, n, fam)
    else:
        fam = rng.choice(gen.SA_FAMILIES)
        values, exact = gen.sa_game(rng, n, fam)
    return fam, values, exact


def run(ctx) -> None:
    rng = ctx.rng
    quick = ctx.tier == "quick"
    all_comps = list(BOUNDS.keys())
    # guaranteed minimum, independent of the time budget: one env-level run
    env_episodes(ctx, {"n": 3, "generator": "noisy_factory", "computer": "superadditive_cached", "gap": "exploitability",
                       "seed": rng.randint(0, 10**6), "episodes": 2, "scale": 1.0, "offset": 0.0, "kind": "env"})
    # guaranteed minimum: the same game objects walked again for other hidden games (low values first), SAM computers included
    for comp0 in ("sam_apx_1", "sam_apx_10", "superadditive_cached"):
        for fam0 in (("sam_offset_int", "sam_int", "sam_float") if comp0.startswith("sam") else ("int_neg", "int", "float")):
            v0, e0 = (gen.sam_game if comp0.startswith("sam") else gen.sa_game)(rng, 4, fam0)
            order0 = gen.explorable(4)
            rng.shuffle(order0)
            walk(ctx, {"n": 4, "family": fam0, "values": v0, "exact": e0, "computer": comp0, "toggles": order0[:6], "_force_reuse": True})
    # guaranteed minimum: full reveal orders with 5 players (the smallest size at which a coalition has a best split into two
    # known parts that are themselves covered by larger known parts), both exact computers
    for comp0 in ("superadditive", "superadditive_cached", "superadditive"):
        for fam0 in ("int", "addsur_int", "float", "convex_int"):
            v0, e0 = gen.sa_game(rng, 5, fam0)
            order0 = gen.explorable(5)
            rng.shuffle(order0)
            walk(ctx, {"n": 5, "family": fam0, "values": v0, "exact": e0, "computer": comp0, "toggles": order0})
    # n = 3: every edge, both directions, all six computers
    for comp in all_comps:
        for _ in range(1 if quick else 3):
            fam, values, exact = game_for(rng, 3, comp)
            walk(ctx, {"n": 3, "family": fam, "values": values, "exact": exact, "computer": comp,
                       "toggles": gen.euler_walk(3, rng)})
            ctx.count("euler_walks")
            ctx.count("euler_walks_n3")
    # n = 4: every edge, both directions
    comps4 = ["superadditive_cached", "sam_apx_1", "sam_apx_10"] if quick else \
        ["superadditive_cached", "superadditive", "sam_apx_1", "sam_apx_10", "sam_apx_100"]
    comp = comps4[ctx.shard % len(comps4)]
    fam, values, exact = game_for(rng, 4, comp)
    walk(ctx, {"n": 4, "family": fam, "values": values, "exact": exact, "computer": comp,
               "toggles": gen.euler_walk(4, rng)})
    ctx.count("euler_walks")
    ctx.count("euler_walks_n4")
    # random reveal orders to full knowledge with random back-tracking, n = 4..6, all computers
    i_env = 0
    while not ctx.out_of_time(2.0):
        i_env += 1
        if i_env % 6 == 0:
            g_ = rng.choice(["noisy_factory", "xos", "xs", "graph_random", "factory_cheerleader_next", "oxs", "noisy_factory_square"])
            comp_ = rng.choice(all_comps[:5]) if g_ in ("xos", "xs", "oxs") else rng.choice(sut.SA_COMPUTERS)
            env_episodes(ctx, {"n": rng.choice([3, 4, 4, 5]), "generator": g_, "computer": comp_, "gap": rng.choice(list(GAPS)),
                               "seed": rng.randint(0, 10**6), "episodes": rng.randint(2, 4), "scale": rng.choice(sut.SCALES),
                               "offset": rng.choice([0.0, 0.0, -1e6]), "kind": "env"})
            continue
        n = rng.choice([4, 5, 5, 6])
        comp = rng.choice([c for c in all_comps if c != "sam_apx_1000" and not (c == "sam_apx_100" and n >= 6)])
        fam, values, exact = game_for(rng, n, comp)
        order = gen.explorable(n)
        rng.shuffle(order)
        toggles = []
        for m in order:
            toggles.append(m)
            if rng.random() < 0.15:
                toggles += [m, m]       # un-reveal and reveal again
        walk(ctx, {"n": n, "family": fam, "values": values, "exact": exact, "computer": comp, "toggles": toggles})
        ctx.count("random_reveal_orders")


def replay(ctx, case) -> None:
    if case.get("kind") == "env":
        env_episodes(ctx, case)
        return
    walk(ctx, case)

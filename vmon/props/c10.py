"""C10 — every offered game generator runs and yields a game of its assumed class.

Monitor: every registry entry is really called for n = 3..8 and many seeds; the returned object is inspected
through get_values(); seeding determinism is observed across two fresh interpreters (different hash seeds).
"""
from __future__ import annotations

import hashlib
import json
import os
import subprocess
import sys

import numpy as np

from .. import env as venv
from ..refmodel import is_monotone_nonincreasing, is_superadditive_tol

LEVEL = "exploration"
RULE = ("case = (registry key != 'convex', n in 3..8, seed): GENERATORS[key](n, default_rng(seed)) is called; must not "
        "raise, number_of_players == n, 2^n float64 values, v(empty) == 0, superadditive over all disjoint pairs "
        "(library's documented 1e-9 relative slack), monotone non-increasing (exact) for xos*/xs*/oxs/k_budget/covg; "
        "equal seeds give equal games within one interpreter and across two fresh interpreters with different hash "
        "seeds, except for the documented exceptions (graph weight-distribution family, predictible_factory). "
        "Distinct = (key, n, digest of values); non-trivial = game not identically zero.")
SHARDS = {"quick": 4, "thorough": 16}
BUDGET = {"quick": 45, "thorough": 420}
REQUIRED = ["generator_calls", "registry_keys", "determinism_pairs_in_process", "determinism_cross_process",
            "determinism_model_instance_cross_process"]

SAM_PREFIXES = ("xos", "xs", "oxs", "k_budget", "covg")


def exempt_from_seeding(key: str) -> bool:
    if key == "predictible_factory":
        return True
    if key in ("graph", "graph_tirangular", "graph_increasing", "graph_decreasing", "graph_03_03"):
        return True
    return key.startswith("graph_beta_") or key.startswith("graph_poiss_")


def digest(values) -> str:
    return hashlib.sha256(np.ascontiguousarray(np.array(values, dtype=np.float64)).tobytes()).hexdigest()[:16]


def call(key, n, seed):
    from incomplete_cooperative.generators import GENERATORS
    return GENERATORS[key](n, np.random.default_rng(seed))


def check_one(ctx, key: str, n: int, seed: int) -> str | None:
    case = {"key": key, "n": n, "seed": seed}
    ctx.count("generator_calls")
    try:
        g = call(key, n, seed)
    except Exception as exc:
        ctx.violation("generator-raised", f"GENERATORS[{key!r}]({n}, default_rng({seed})) raised {type(exc).__name__}: {exc}", case)
        return None
    try:
        values = g.get_values()
        npl = g.number_of_players
    except Exception as exc:
        ctx.violation("not-a-complete-game", f"{key}: get_values() raised {type(exc).__name__}: {exc}", case)
        return None
    arr = np.array(values, copy=True)      # a copy: get_values() may be a view of the game's own table
    if npl != n or arr.shape != (1 << n,):
        ctx.violation("wrong-player-count", f"{key}: number_of_players={npl}, {arr.shape} values, requested n={n}", case)
        return None
    if arr.dtype != np.float64:
        ctx.violation("values-not-float64", f"{key}: dtype {arr.dtype}", case)
    if np.any(np.isnan(arr)) or np.any(np.isinf(arr)):
        ctx.violation("non-finite-value", f"{key}: NaN/inf among the values (n={n}, seed={seed})", case)
        return None
    if arr[0] != 0:
        ctx.violation("empty-coalition-nonzero", f"{key}: v(empty) = {arr[0]!r}", case)
    v = [float(x) for x in arr]
    bad = is_superadditive_tol(n, v, 1e-9)
    if bad is not None:
        a, b = bad
        ctx.violation("not-superadditive", f"{key} (n={n}, seed={seed}): v({a})+v({b}) = {v[a] + v[b]!r} > v({a | b}) = {v[a | b]!r}", case)
    if key.startswith(SAM_PREFIXES):
        bad = is_monotone_nonincreasing(n, v)
        ctx.count("sam_family_calls")
        if bad is not None:
            a, b = bad
            ctx.violation("not-monotone-nonincreasing", f"{key} (n={n}, seed={seed}): v({a}) = {v[a]!r} < v({b}) = {v[b]!r}", case)
    # a complete game must say the same through every accessor (the env reads single values, the checks above read the table)
    try:
        from incomplete_cooperative.coalitions import Coalition
        ctx.count("accessor_consistency_checks")
        picks = list(range(1 << n)) if n <= 5 else [0, 1, (1 << n) - 1] + [ctx.rng.randrange(1 << n) for _ in range(12)]
        single = [float(g.get_value(Coalition(m))) for m in picks]
        some = [float(x) for x in g.get_values([Coalition(m) for m in picks])]
        if single != [v[m] for m in picks] or some != [v[m] for m in picks]:
            m = next(m for m, a, b in zip(picks, single, some) if a != v[m] or b != v[m])
            ctx.violation("game-accessors-disagree", f"{key} (n={n}, seed={seed}): coalition {m}: get_values()[{m}] = {v[m]!r}, "
                          f"get_value = {single[picks.index(m)]!r}, get_values([c]) = {some[picks.index(m)]!r}", case)
        if hasattr(g, "get_lower_bounds") and hasattr(g, "are_values_known"):
            lo_ = [float(x) for x in g.get_lower_bounds()]
            up_ = [float(x) for x in g.get_upper_bounds()]
            if lo_ != v or up_ != v or not bool(np.all(g.are_values_known())):
                ctx.violation("game-accessors-disagree", f"{key} (n={n}, seed={seed}): not a complete game: lower/upper bounds or "
                              f"known flags disagree with get_values()", case)
    except Exception as exc:
        ctx.violation("not-a-complete-game", f"{key}: reading single values raised {type(exc).__name__}: {exc}", case)
    d = digest(v)
    if not exempt_from_seeding(key):
        try:
            if seed % 2 == 0 and hasattr(g, "set_values"):
                g.set_values(np.zeros(1 << n))          # whatever the caller does to a returned game must not leak into later calls
                ctx.count("first_result_mutated_before_second_call")
            d2 = digest(call(key, n, seed).get_values())
            ctx.count("determinism_pairs_in_process")
            if d2 != d:
                ctx.violation("same-seed-different-game", f"{key} (n={n}, seed={seed}): two identically seeded calls differ", case)
        except Exception as exc:
            ctx.violation("generator-raised", f"{key} second call raised {type(exc).__name__}: {exc}", case)
    ctx.seen("registry_keys", key)
    ctx.case((key, n, d), bool(np.any(arr != 0)),
             sample={"key": key, "n": n, "seed": seed, "values_head": v[:8]} if seed % 7 == 0 and n == 4 else None)
    return d


def cross_process(ctx, specs: list[tuple[str, int, int]], local: dict) -> None:
    """Identical seeds in two fresh interpreters (hash seeds 1 and 2) must give the digests seen here."""
    spec_json = json.dumps(specs)
    outs = []
    for hs in ("1", "2"):
        e = venv.child_env({"PYTHONHASHSEED": hs})
        try:
            r = subprocess.run([venv.PYTHON, "-m", "vmon.props.c10", "--digests"], input=spec_json, capture_output=True,
                               text=True, env=e, cwd=str(venv.ROOT), timeout=600)
            outs.append(json.loads(r.stdout.strip().splitlines()[-1]))
        except Exception as exc:
            ctx.mark_inconclusive(f"cross-process determinism helper failed: {exc!r}")
            return
    for (key, n, seed), a, b in zip(specs, outs[0], outs[1]):
        ctx.count("determinism_cross_process")
        want = local.get((key, n, seed))
        if a != b or (want is not None and a != want):
            ctx.violation("same-seed-different-game-across-processes",
                          f"{key} (n={n}, seed={seed}): digests {a} / {b} in fresh interpreters, {want} here",
                          {"key": key, "n": n, "seed": seed, "cross_process": True})


def model_path(ctx) -> None:
    """The same determinism through the way the command line obtains its games (ModelInstance(seed=...).game_generator_fn),
    observed in two fresh interpreters with different hash seeds."""
    rng = ctx.rng
    specs = [(k, rng.choice([3, 4, 5]), rng.randint(0, 10**6)) for k in rng.sample(
        ["noisy_factory", "xos", "xs", "oxs", "covg_fn_generator", "k_budget_generator", "factory_cheerleader", "graph_random",
         "graph_cycle", "noisy_factory_exp", "xos3", "graph_internet"], 6)]
    code = ("import sys, json, hashlib, numpy as np; from incomplete_cooperative.run.model import ModelInstance; out = []\n"
            "for k, n, s in json.loads(sys.stdin.read()):\n"
            "    inst = ModelInstance(number_of_players=n, game_generator=k, seed=s)\n"
            "    g1 = inst.game_generator_fn(); g2 = inst.game_generator_fn()\n"
            "    out.append([hashlib.sha256(np.array(g.get_values(), dtype=np.float64).tobytes()).hexdigest()[:16] for g in (g1, g2)])\n"
            "print(json.dumps(out))")
    outs = []
    for hs in ("1", "2"):
        try:
            r = subprocess.run([venv.PYTHON, "-c", code], input=json.dumps(specs), capture_output=True, text=True,
                               env=venv.child_env({"PYTHONHASHSEED": hs}), cwd=str(venv.ROOT), timeout=600)
            outs.append(json.loads(r.stdout.strip().splitlines()[-1]))
        except Exception as exc:
            ctx.mark_inconclusive(f"ModelInstance determinism helper failed: {exc!r}")
            return
    for (k, n, s), a, b in zip(specs, outs[0], outs[1]):
        ctx.count("determinism_model_instance_cross_process")
        if a != b:
            ctx.violation("same-seed-different-game-across-processes",
                          f"ModelInstance(game_generator={k!r}, number_of_players={n}, seed={s}).game_generator_fn(): first two games "
                          f"{a} in one interpreter, {b} in another (different PYTHONHASHSEED)",
                          {"key": k, "n": n, "seed": s, "model_path": True})
        ctx.case(("model", k, n, s), True)


def run(ctx) -> None:
    from incomplete_cooperative.generators import GENERATORS
    rng = ctx.rng
    quick = ctx.tier == "quick"
    keys = [k for k in GENERATORS if k != "convex"]
    local: dict = {}
    seeds_small = 12 if quick else 300
    work = [(k, n, s) for k in keys for n in (3, 4, 5, 6) for s in range(seeds_small)]
    work += [(k, n, s) for k in keys for n in (7, 8) for s in range(3 if quick else 24) if not (quick and k == "oxs" and n == 8 and s)]
    work = [w for i, w in enumerate(work) if i % ctx.nshards == ctx.shard]
    rng.shuffle(work)
    base = rng.randint(0, 10**6) * 1000
    done = 0
    for k, n, s in work:
        if done >= 150 and ctx.out_of_time(12.0):       # the first 150 calls are a guaranteed minimum
            ctx.count("work_items_skipped_for_time")
            continue
        seed = base + s if s else s       # seed 0 always included
        d = check_one(ctx, k, n, seed)
        if d is not None:
            local[(k, n, seed)] = d
        done += 1
    specs = [key for key in local if not exempt_from_seeding(key[0])]
    rng.shuffle(specs)
    specs = [s for s in specs if s[1] <= 6][: (300 if quick else 4000)]
    cross_process(ctx, specs, local)
    if ctx.shard == 0 or not quick:
        model_path(ctx)


def replay(ctx, case) -> None:
    if case.get("model_path"):
        model_path(ctx)
        return
    d = check_one(ctx, case["key"], case["n"], case["seed"])
    if case.get("cross_process") and d is not None:
        cross_process(ctx, [(case["key"], case["n"], case["seed"])], {(case["key"], case["n"], case["seed"]): d})


if __name__ == "__main__" and "--digests" in sys.argv:
    out = []
    for key, n, seed in json.loads(sys.stdin.read()):
        try:
            out.append(digest(call(key, n, seed).get_values()))
        except Exception as exc:      # reported by the in-process call already
            out.append(f"raised:{type(exc).__name__}")
    print(json.dumps(out))

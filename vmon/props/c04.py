"""C04 — approximate superadditive-monotone (SAM) bounds are sound, ordered and self-consistent.

Monitor: twin real game objects with the same knowledge, one per repetition count (0..10 and the registered
1/10/100/1000) plus one with the plain superadditive computer; their tables are compared with the hidden SAM game
and with each other after the real computers ran.
"""
from __future__ import annotations

from functools import partial

import numpy as np

from incomplete_cooperative.bounds import BOUNDS, compute_bounds_superadditive_monotone_approx_cached
from incomplete_cooperative.generators import GENERATORS

from .. import boundcore, gen, sut
from ..refmodel import members, ref_bounds

LEVEL = "exploration"
RULE = ("case = (superadditive monotone-non-increasing game, knowledge set K containing the minimal information, "
        "repetition count r); games: minus the subadditive closure of monotone non-negative set functions (int, dyadic, "
        "float), K-budget, coverage, and the registered xos*/xs*/oxs/k_budget/covg generators; r = 0..10 on twin "
        "objects plus registered sam_apx_1/10/100 (1000 at n<=4); K exhaustive for n=3,4 on some games, random above. "
        "Oracles: truth inside; inside the plain superadditive interval (real cached computer and exact reference); "
        "interval(r+1) inside interval(r); lower(A) >= lower(A+i); upper(S) <= v(known sub-coalition) and <= v(T) - "
        "lower(T-S) for known T. Exact families compare with ==, others with 64*eps*n*scale. Distinct = hash(values, K, "
        "r); non-trivial = SAM interval non-degenerate or strictly inside the SA interval somewhere.")
SHARDS = {"quick": 4, "thorough": 16}
BUDGET = {"quick": 40, "thorough": 420}
REQUIRED = ["triples_checked", "registered_generator_games", "exhaustive_K_sweeps", "registered_computers_used"]

REG_SAM_GENERATORS = ["xos", "xos_one", "xos2", "xos3", "xos12", "xos_norm_additive", "xos2_norm_additive",
                      "xos3_norm_additive", "xos12_norm_additive", "xs", "xs2", "xs3", "xs6", "oxs",
                      "k_budget_generator", "covg_fn_generator"]


def sam_computer(r: int):
    return partial(compute_bounds_superadditive_monotone_approx_cached, repetitions=r)


def check_tables(ctx, case, r, known, lo, up, truth, slack, sa_lo, sa_up) -> None:
    n = case["n"]
    size = 1 << n

    def bad(mech, msg):
        c = dict(case)
        c["r"] = r
        ctx.violation(mech, f"{msg} (n={n}, r={r}, family={case['family']}, K={sorted(case['K'])})", c)
    if np.any(np.isnan(lo)) or np.any(np.isnan(up)):
        return bad("nan-bound", "NaN bound")
    i = np.nonzero(truth < lo - slack)[0]
    if len(i):
        return bad("truth-below-lower", f"coalition {int(i[0])}: truth {truth[i[0]]!r} < lower {lo[i[0]]!r}")
    i = np.nonzero(truth > up + slack)[0]
    if len(i):
        return bad("truth-above-upper", f"coalition {int(i[0])}: truth {truth[i[0]]!r} > upper {up[i[0]]!r}")
    i = np.nonzero(lo < sa_lo - slack)[0]
    if len(i):
        return bad("looser-than-superadditive-lower", f"coalition {int(i[0])}: SAM lower {lo[i[0]]!r} < SA lower {sa_lo[i[0]]!r}")
    i = np.nonzero(up > sa_up + slack)[0]
    if len(i):
        return bad("looser-than-superadditive-upper", f"coalition {int(i[0])}: SAM upper {up[i[0]]!r} > SA upper {sa_up[i[0]]!r}")
    for b in range(1, size):
        for p in members(b):
            a = b ^ (1 << p)
            if lo[a] < lo[b] - slack:
                return bad("lower-not-monotone", f"lower({a})={lo[a]!r} < lower({b})={lo[b]!r}")
    kn = np.nonzero(known)[0]
    for s in range(1, size):
        if known[s]:
            continue
        for t in kn:
            t = int(t)
            if t and t != s and (t & s) == t and up[s] > truth[t] + slack:
                return bad("upper-above-known-subcoalition", f"upper({s})={up[s]!r} > v({t})={truth[t]!r}")
            if t != s and (t & s) == s and up[s] > truth[t] - lo[t ^ s] + 2 * slack:
                return bad("upper-above-superset-cap", f"upper({s})={up[s]!r} > v({t})-lower({t ^ s})={truth[t] - lo[t ^ s]!r}")


def run_case(ctx, case, reps) -> None:
    n, values, exact, K = case["n"], case["values"], case["exact"], case["K"]
    truth = np.array(values, dtype=np.float64)
    scale = float(np.max(np.abs(truth))) or 1.0
    slack = 0.0 if exact else sut.ulp_slack(n, scale)
    try:
        sa = sut.new_game(n, BOUNDS["superadditive_cached"])
        sut.set_knowledge(sa, values, K)
        sa.compute_bounds()
        _, sa_lo, sa_up = sut.table(sa)
        rlo, rup = ref_bounds(n, sut.known_dict(values, K))
        rlo = np.array([float(x) for x in rlo])
        rup = np.array([float(x) for x in rup])
        if not (np.allclose(sa_lo, rlo, rtol=0, atol=max(slack, 0)) and np.allclose(sa_up, rup, rtol=0, atol=max(slack, 0))):
            ctx.count("sa_twin_differs_from_reference")      # C02's business; use the reference for the ordering below
            sa_lo, sa_up = rlo, rup
        prev = None
        for r in reps:
            comp = BOUNDS[f"sam_apx_{r}"] if isinstance(r, str) else sam_computer(r)
            if isinstance(r, str):
                ctx.count("registered_computers_used")
                r = int(r)
            g = sut.object_for_case(ctx, case, comp, key=("sam", r), p_reuse=1.0 if case.get("_force_reuse") else 0.5)
            if case.get("dirty"):
                # reach K through a history that leaves stale garbage in the unknown rows
                boundcore.apply_ops(g, values, boundcore.make_history(ctx.rng, n, K, "dirty"))
            else:
                sut.set_knowledge(g, values, K)
            g.compute_bounds()
            known, lo, up = sut.table(g)
            ctx.count("triples_checked")
            check_tables(ctx, case, r, known, lo, up, truth, slack, sa_lo, sa_up)
            if prev is not None and prev[0] < r:
                pr, plo, pup = prev
                if np.any(lo < plo - slack) or np.any(up > pup + slack):
                    i = int(np.nonzero((lo < plo - slack) | (up > pup + slack))[0][0])
                    c = dict(case)
                    c["r"] = r
                    ctx.violation("more-repetitions-loosen", f"coalition {i}: r={pr} [{plo[i]!r},{pup[i]!r}] -> r={r} "
                                  f"[{lo[i]!r},{up[i]!r}] (n={n}, family={case['family']}, K={sorted(K)})", c)
            prev = (r, lo, up)
            nt = bool(np.any((~known) & ((lo < up) | (lo > sa_lo) | (up < sa_up))))
            ctx.case((values, sorted(K), r), nt,
                     sample={"n": n, "family": case["family"], "K": sorted(K), "r": r, "lower": lo.tolist()[:8],
                             "upper": up.tolist()[:8], "truth": values[:8]})
    except Exception as exc:
        ctx.violation("computer-raised", f"{type(exc).__name__}: {exc} (n={n}, family={case['family']}, K={sorted(K)})", case)


def poison_call(ctx, n: int) -> None:
    """A computation that FAILS (knowledge without the singletons: outside the computers' domain) and is survived by
    the caller.  It must not influence later, legal computations in the same process."""
    r = ctx.rng.choice([0, 1, 3, 10])
    g = sut.new_game(n, sam_computer(r))
    vals, _ = gen.sam_game(ctx.rng, n, "sam_int")
    try:
        sut.set_knowledge(g, vals, [0, (1 << n) - 1] + ctx.rng.sample(gen.explorable(n), min(2, len(gen.explorable(n)))))
        g.compute_bounds()
        ctx.count("poison_calls_that_did_not_raise")
    except Exception:
        ctx.count("poison_calls_raised")
    ctx.count("poison_calls")


def reps_for(ctx, n: int, quick: bool):
    reps = list(range(0, 11))
    tail = ["1", "10"]
    if ctx.rng.random() < 0.1 or n <= 4:
        tail.append("100")
    if n <= 4 and ctx.rng.random() < (0.02 if quick else 0.1):
        tail.append("1000")
    return reps + tail


def registered_game(ctx, n: int):
    name = ctx.rng.choice(REG_SAM_GENERATORS)
    g = GENERATORS[name](n, np.random.default_rng(ctx.rng.randint(0, 2**31)))
    ctx.count("registered_generator_games")
    vals = [float(x) for x in g.get_values()]
    exact = name in ("k_budget_generator", "covg_fn_generator")
    return name, vals, exact


def run(ctx) -> None:
    rng = ctx.rng
    quick = ctx.tier == "quick"
    # guaranteed minimum, independent of the time budget: two games from the registered SAM generators
    for _ in range(2):
        fam0, v0, e0 = registered_game(ctx, 4)
        run_case(ctx, {"n": 4, "family": fam0, "values": v0, "exact": e0, "K": gen.random_knowledge_set(rng, 4)}, [0, 1, 2, "1", "10"])
    # guaranteed minimum: the SAME objects are re-initialised (bulk reset) for other hidden games, low values first
    for fam0 in ("sam_offset_int", "sam_int", "sam_float", "sam_int"):
        v0, e0 = gen.sam_game(rng, 4, fam0)
        run_case(ctx, {"n": 4, "family": fam0, "values": v0, "exact": e0, "K": gen.random_knowledge_set(rng, 4), "_force_reuse": True},
                 [0, 1, 2, "1", "10"])
    # exhaustive K for n = 3 (8 sets) on several games and n = 4 (1024 sets) on one game, r in {0,1,2,10}
    for fam in (["sam_int", "sam_float"] if quick else list(gen.SAM_FAMILIES)):
        values, exact = gen.sam_game(rng, 3, fam)
        for K in gen.all_knowledge_sets(3):
            run_case(ctx, {"n": 3, "family": fam, "values": values, "exact": exact, "K": K}, reps_for(ctx, 3, quick))
        ctx.count("exhaustive_K_sweeps")
    values, exact = gen.sam_game(rng, 4, rng.choice(gen.SAM_FAMILIES))
    for j, K in enumerate(gen.all_knowledge_sets(4)):
        if quick and j % 4 != ctx.shard % 4:
            continue
        run_case(ctx, {"n": 4, "family": "sam_sweep4", "values": values, "exact": exact, "K": K}, [0, 1, 2, "10"])
    ctx.count("exhaustive_K_sweeps")
    ctx.count("exhaustive_K_sweeps_n4_quarter" if quick else "exhaustive_K_sweeps_n4")
    if not ctx.out_of_time(10.0):
        # beyond 8 players coalition ids leave the 8-bit range (size ordering of the memoised structure)
        nb = rng.choice([9, 9, 10]) if not quick else 9
        vb, eb = gen.sam_game(rng, nb, rng.choice(["sam_int", "sam_budget", "sam_float"]))
        run_case(ctx, {"n": nb, "family": "big_n", "values": vb, "exact": eb, "K": gen.random_knowledge_set(rng, nb)}, [0, 1, "1"])
        ctx.count(f"n{nb}")
    while not ctx.out_of_time(1.5):
        n = rng.choice([3, 4, 4, 5, 5, 6] if quick else [3, 4, 4, 5, 5, 5, 6, 6])
        if rng.random() < 0.1:
            poison_call(ctx, n)
        if rng.random() < 0.45:
            fam, values, exact = registered_game(ctx, n)
        else:
            fam = rng.choice(gen.SAM_FAMILIES)
            values, exact = gen.sam_game(rng, n, fam)
        K = gen.random_knowledge_set(rng, n)
        run_case(ctx, {"n": n, "family": fam, "values": values, "exact": exact, "K": K, "dirty": rng.random() < 0.3},
                 reps_for(ctx, n, quick))
        ctx.count(f"n{n}")


def replay(ctx, case) -> None:
    reps = list(range(0, 11)) + ["1", "10", "100"]
    run_case(ctx, case, reps)

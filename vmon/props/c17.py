"""C17 — an incomplete game object is a faithful map coalition -> (known?, lower, upper).

Monitor: random sequences of public operations run on real IncompleteCooperativeGame objects that carry an
icontract class invariant (evaluated around every public call); after every operation all public getters are
compared with a dictionary model.
"""
from __future__ import annotations

import math
import random

import icontract
import numpy as np

from incomplete_cooperative.coalitions import Coalition
from incomplete_cooperative.game import IncompleteCooperativeGame

LEVEL = "exploration"
RULE = ("case = one public operation applied to a real game object and compared with a dict model through ALL public "
        "getters (is_value_known, are_values_known, get_value(s) incl. ValueError on unknown, get_known_value(s) incl. "
        "None/NaN, get_lower/upper_bound(s), get_interval(s), full). Operations: set / unset / reveal / un-reveal / "
        "bulk set (subset, all) / bulk reset (set_known_values) / bulk lower/upper bound set (subset, all) / scalar bound "
        "set on unknown rows / copy-then-mutate / negate-then-mutate / double negation / compute with the no-op "
        "computer; n=1..5, sequence lengths 1..40, overlapping subsets, values incl. negatives, +-0.0, 1e300, "
        "subnormals. An icontract class invariant (known flag in {0,1}; known => lower == upper) runs around every "
        "public call. Distinct = hash(n, operation, arguments, model state before); non-trivial = the operation changed "
        "the model.")
SHARDS = {"quick": 4, "thorough": 16}
BUDGET = {"quick": 40, "thorough": 360}
REQUIRED = ["operations_checked", "getter_comparisons", "invariant_evaluations", "copies_checked", "negations_checked",
            "bulk_bound_sets_on_known_rows"]

_INV = {"n": 0}


class InvariantBroken(Exception):
    pass


def known_rows_degenerate(self) -> bool:
    _INV["n"] += 1
    v = self._values
    k = v[:, 0]
    if not np.all((k == 0) | (k == 1)):
        return False
    kn = k == 1
    return bool(np.all(v[kn, 1] == v[kn, 2]))


_installed = False


def install_invariant() -> None:
    global _installed
    if not _installed:
        icontract.invariant(known_rows_degenerate, error=lambda self: InvariantBroken(
            "known flag not in {0,1} or a known coalition has lower != upper"))(IncompleteCooperativeGame)
        _installed = True


class Model:
    """known: mask -> value; bounds of unknown rows: mask -> [lo, up] once specified by a setter (else unspecified)."""

    def __init__(self, n):
        self.n = n
        self.known = {0: 0.0}
        self.spec: dict[int, list] = {}

    def copy(self):
        m = Model(self.n)
        m.known = dict(self.known)
        m.spec = {k: list(v) for k, v in self.spec.items()}
        return m

    def forget(self, m):
        self.known.pop(m, None)
        self.spec.pop(m, None)         # the property does not say what bounds an un-set coalition carries: unspecified


def same(a, b) -> bool:
    a, b = float(a), float(b)
    if math.isnan(a) or math.isnan(b):
        return math.isnan(a) and math.isnan(b)
    return a == b


def compare(ctx, case, g, model: Model, where: str) -> bool:
    n = model.n
    size = 1 << n
    ok = True

    def bad(mech, msg):
        nonlocal ok
        ok = False
        ctx.violation(mech, f"{where}: {msg} (n={n})", case)
    ctx.count("getter_comparisons")
    kn = np.array(g.are_values_known())
    if kn.shape != (size,) or kn.dtype != np.bool_:
        bad("are-values-known-shape", f"shape {kn.shape} dtype {kn.dtype}")
        return False
    want_known = [m in model.known for m in range(size)]
    if [bool(x) for x in kn] != want_known:
        d = [m for m in range(size) if bool(kn[m]) != want_known[m]]
        bad("knownness-wrong", f"coalitions {d[:6]}: object says known={[bool(kn[m]) for m in d[:6]]}, model the opposite")
        return False
    lo = np.array(g.get_lower_bounds())
    up = np.array(g.get_upper_bounds())
    kv = np.array(g.get_known_values())
    iv = np.array(g.get_intervals())
    for m in range(size):
        c = Coalition(m)
        if bool(g.is_value_known(c)) != want_known[m]:
            bad("knownness-wrong", f"is_value_known({m}) disagrees with are_values_known")
        if m in model.known:
            v = model.known[m]
            try:
                if not (same(g.get_value(c), v) and same(lo[m], v) and same(up[m], v) and same(g.get_lower_bound(c), v)
                        and same(g.get_upper_bound(c), v) and same(g.get_known_value(c), v) and same(kv[m], v)
                        and same(iv[m][0], v) and same(iv[m][1], v) and same(g.get_interval(c)[0], v) and same(g.get_interval(c)[1], v)):
                    bad("known-coalition-not-its-value", f"coalition {m}: value {v!r}, object has [{lo[m]!r}, {up[m]!r}], "
                        f"get_value {g.get_value(c)!r}, known value {kv[m]!r}")
            except ValueError:
                bad("known-coalition-not-its-value", f"get_value({m}) raised although the coalition is known")
        else:
            try:
                r = g.get_value(c)
                bad("unknown-value-returned", f"get_value({m}) returned {r!r} for an unknown coalition")
            except ValueError:
                pass
            if g.get_known_value(c) is not None:
                bad("unknown-value-returned", f"get_known_value({m}) returned {g.get_known_value(c)!r} for an unknown coalition")
            if not math.isnan(float(kv[m])):
                bad("unknown-value-returned", f"get_known_values()[{m}] = {kv[m]!r} for an unknown coalition (expected NaN)")
            if m in model.spec:
                wl, wu = model.spec[m]
                if not (same(lo[m], wl) and same(up[m], wu) and same(g.get_lower_bound(c), wl) and same(g.get_upper_bound(c), wu)
                        and same(iv[m][0], wl) and same(iv[m][1], wu)):
                    bad("unknown-row-bounds-wrong", f"coalition {m}: bounds [{lo[m]!r}, {up[m]!r}], last written [{wl!r}, {wu!r}]")
    # subset getters
    rng = case["_rng"]
    sub = [m for m in range(size) if rng.random() < 0.5]
    cs = [Coalition(m) for m in sub]
    if sub:
        # the protocol says Iterable[Coalition]: one-shot iterators must behave like lists
        it = rng.choice([iter, lambda x: (c for c in x), lambda x: map(lambda c: c, x), lambda x: filter(lambda c: True, x)])
        try:
            ctx.count("one_shot_iterable_calls")
            if not np.array_equal(np.array(g.are_values_known(it(cs))), kn[sub]) or \
                    not np.array_equal(np.array(g.get_lower_bounds(it(cs))), lo[sub], equal_nan=True) or \
                    not np.array_equal(np.array(g.get_known_values(it(cs))), kv[sub], equal_nan=True):
                bad("subset-getter-wrong", "a getter given a one-shot iterable differs from the same getter given a list")
            allk_it = all(m in model.known for m in sub)
            try:
                r = np.array(g.get_values(it(cs)))
                if not allk_it:
                    bad("unknown-value-returned", f"get_values(<iterator over {sub}>) returned {r.tolist()} although some requested coalition is unknown")
                elif not all(same(a, model.known[m]) for a, m in zip(r, sub)):
                    bad("known-coalition-not-its-value", f"get_values(<iterator over {sub}>) = {r.tolist()}")
            except ValueError:
                if allk_it:
                    bad("known-coalition-not-its-value", f"get_values(<iterator over {sub}>) raised although all are known")
        except (TypeError, IndexError) as exc:
            bad("subset-getter-wrong", f"a getter rejected a one-shot iterable: {type(exc).__name__}: {exc}")
        if not np.array_equal(np.array(g.are_values_known(cs)), kn[sub]):
            bad("subset-getter-wrong", "are_values_known(subset) differs from the full vector")
        if not np.array_equal(np.array(g.get_lower_bounds(cs)), lo[sub], equal_nan=True) or \
                not np.array_equal(np.array(g.get_upper_bounds(cs)), up[sub], equal_nan=True):
            bad("subset-getter-wrong", "get_lower/upper_bounds(subset) differ from the full vectors")
        if not np.array_equal(np.array(g.get_known_values(cs)), kv[sub], equal_nan=True):
            bad("subset-getter-wrong", "get_known_values(subset) differs from the full vector")
        allk = all(m in model.known for m in sub)
        try:
            r = np.array(g.get_values(cs))
            if not allk:
                bad("unknown-value-returned", f"get_values({sub}) returned {r.tolist()} although some requested coalition is unknown")
            elif [float(x) for x in r] != [float(model.known[m]) for m in sub] and not all(same(a, model.known[m]) for a, m in zip(r, sub)):
                bad("known-coalition-not-its-value", f"get_values({sub}) = {r.tolist()}")
        except ValueError:
            if allk:
                bad("known-coalition-not-its-value", f"get_values({sub}) raised although all are known")
    full = len(model.known) == size
    if bool(g.full) != full:
        bad("full-flag-wrong", f"full = {g.full}, model {full}")
    try:
        r = g.get_values()
        if not full:
            bad("unknown-value-returned", "get_values() returned although not every coalition is known")
    except ValueError:
        if full:
            bad("known-coalition-not-its-value", "get_values() raised although the game is full")
    return ok


def rand_value(rng):
    r = rng.random()
    if r < 0.35:
        return float(rng.randint(-9, 9))
    if r < 0.7:
        return rng.uniform(-100, 100)
    return rng.choice([0.0, -0.0, 1e300, -1e300, 5e-324, 1.5, -2.25, 1e-9])


def run_sequence(ctx, case) -> None:
    install_invariant()
    n, seed, length = case["n"], case["seq_seed"], case["length"]
    rng = random.Random(seed)
    case = dict(case)
    case["_rng"] = random.Random(seed + 1)
    size = 1 << n
    inv0 = _INV["n"]
    try:
        g = IncompleteCooperativeGame(n)
        model = Model(n)
        compare(ctx, case, g, model, "after construction")
        ops_log = []
        for step in range(length):
            before = (dict(model.known), {k: tuple(v) for k, v in model.spec.items()})
            op = rng.choice(["set", "unset", "reveal", "unreveal", "bulk_set", "bulk_set_all", "bulk_reset", "bulk_lower", "bulk_upper",
                             "bulk_lower_all", "bulk_upper_all", "scalar_lower", "scalar_upper", "copy", "neg", "compute", "bulk_reset_all"])
            m = rng.randrange(size)
            subset = rng.sample(range(size), rng.randint(1, size))
            if op == "set":
                v = rand_value(rng)
                g.set_value(v, Coalition(m))
                model.known[m] = v
                model.spec.pop(m, None)
            elif op == "unset":
                g.unset_value(Coalition(m))
                model.forget(m)
            elif op == "reveal":
                if m in model.known:
                    continue
                v = rand_value(rng)
                g.reveal_value(v, Coalition(m))
                model.known[m] = v
                model.spec.pop(m, None)
            elif op == "unreveal":
                if m not in model.known:
                    continue
                g.unreveal_value(Coalition(m))
                model.forget(m)
            elif op in ("bulk_set", "bulk_set_all"):
                if op == "bulk_set_all":
                    subset = list(range(size))
                vals = [rand_value(rng) for _ in subset]
                g.set_values(np.array(vals), None if op == "bulk_set_all" else [Coalition(x) for x in subset])
                for x, v in zip(subset, vals):
                    model.known[x] = v
                    model.spec.pop(x, None)
            elif op in ("bulk_reset", "bulk_reset_all"):
                if op == "bulk_reset_all":
                    subset = list(range(size))
                vals = [rand_value(rng) for _ in subset]
                g.set_known_values(vals, None if op == "bulk_reset_all" else [Coalition(x) for x in subset])
                model.known = {0: 0.0}
                model.spec = {}        # bounds of the dropped coalitions are unspecified by the property
                for x, v in zip(subset, vals):
                    model.known[x] = v
                    model.spec.pop(x, None)
                if 0 not in model.known:
                    ctx.violation("empty-coalition-not-known-after-reset", "model lost the empty coalition", case)
            elif op in ("bulk_lower", "bulk_upper", "bulk_lower_all", "bulk_upper_all"):
                if op.endswith("_all"):
                    subset = list(range(size))
                vals = [rand_value(rng) for _ in subset]
                fn = g.set_lower_bounds if "lower" in op else g.set_upper_bounds
                fn(np.array(vals), None if op.endswith("_all") else [Coalition(x) for x in subset])
                idx = 0 if "lower" in op else 1
                if any(x in model.known for x in subset):
                    ctx.count("bulk_bound_sets_on_known_rows")
                for x, v in zip(subset, vals):
                    if x not in model.known:
                        model.spec.setdefault(x, [None, None])
                        if model.spec[x][0] is None and model.spec[x][1] is None:
                            model.spec[x] = [float(g.get_lower_bound(Coalition(x))), float(g.get_upper_bound(Coalition(x)))]
                        model.spec[x][idx] = v
            elif op in ("scalar_lower", "scalar_upper"):
                if m in model.known:
                    continue
                v = rand_value(rng)
                (g.set_lower_bound if op == "scalar_lower" else g.set_upper_bound)(v, Coalition(m))
                if m not in model.spec:
                    model.spec[m] = [float(g.get_lower_bound(Coalition(m))), float(g.get_upper_bound(Coalition(m)))]
                model.spec[m][0 if op == "scalar_lower" else 1] = v
            elif op == "copy":
                cp = g.copy()
                snap = np.array(g.get_intervals()).copy(), np.array(g.are_values_known()).copy()
                if not compare(ctx, case, cp, model, f"copy at step {step}"):
                    return
                # mutate the copy in every way; the original must not move
                cp.set_value(rand_value(rng), Coalition(m))
                cp.unset_value(Coalition(rng.randrange(size)))
                cp.set_lower_bounds(np.array([rand_value(rng) for _ in range(size)]))
                cp.set_known_values([1.0], [Coalition(size - 1)])
                ctx.count("copies_checked")
                if not (np.array_equal(np.array(g.get_intervals()), snap[0], equal_nan=True) and np.array_equal(np.array(g.are_values_known()), snap[1])):
                    ctx.violation("copy-aliases-original", f"mutating a copy changed the original at step {step} (n={n})", case)
                    return
                # and the other way round
                cp2 = g.copy()
                s2 = np.array(cp2.get_intervals()).copy()
                g.set_value(rand_value(rng), Coalition(m))
                model.known[m] = float(g.get_lower_bound(Coalition(m)))
                model.spec.pop(m, None)
                if not np.array_equal(np.array(cp2.get_intervals()), s2, equal_nan=True):
                    ctx.violation("copy-aliases-original", f"mutating the original changed an earlier copy at step {step} (n={n})", case)
                    return
            elif op == "neg":
                ng = -g
                ctx.count("negations_checked")
                lo, up, kn = np.array(g.get_lower_bounds()), np.array(g.get_upper_bounds()), np.array(g.are_values_known())
                nlo, nup, nkn = np.array(ng.get_lower_bounds()), np.array(ng.get_upper_bounds()), np.array(ng.are_values_known())
                if not (np.array_equal(nkn, kn) and np.array_equal(nlo, -up, equal_nan=True) and np.array_equal(nup, -lo, equal_nan=True)):
                    ctx.violation("negation-wrong", f"-g does not swap and negate the bounds / keep knowledge at step {step} (n={n})", case)
                    return
                back = -ng
                if not (np.array_equal(np.array(back.get_lower_bounds()), lo, equal_nan=True) and np.array_equal(np.array(back.get_upper_bounds()), up, equal_nan=True)
                        and np.array_equal(np.array(back.are_values_known()), kn) and back == g):
                    ctx.violation("negation-not-involution", f"-(-g) != g at step {step} (n={n})", case)
                    return
                ng.set_value(rand_value(rng), Coalition(m))
                ng.set_upper_bounds(np.array([rand_value(rng) for _ in range(size)]))
                if not (np.array_equal(np.array(g.get_lower_bounds()), lo, equal_nan=True) and np.array_equal(np.array(g.get_upper_bounds()), up, equal_nan=True)
                        and np.array_equal(np.array(g.are_values_known()), kn)):
                    ctx.violation("negation-aliases-original", f"mutating -g changed g at step {step} (n={n})", case)
                    return
            elif op == "compute":
                g.compute_bounds()
            ops_log.append(op)
            ctx.count("operations_checked")
            ok = compare(ctx, case, g, model, f"after op #{step} {op}")
            after = (dict(model.known), {k: tuple(v) for k, v in model.spec.items()})
            ctx.case((n, op, seed, step), repr(before) != repr(after),
                     sample=({"n": n, "step": step, "op": op, "known_after": sorted(model.known), "ops_so_far": ops_log[-6:]}
                             if step == 7 else None))
            if not ok:
                return
    except InvariantBroken as exc:
        ctx.violation("class-invariant-broken", f"{exc} (n={n}, sequence seed {seed})", case)
    except AssertionError as exc:
        ctx.violation("operation-asserted", f"AssertionError {exc} on a legal operation (n={n}, sequence seed {seed})", case)
    except Exception as exc:
        ctx.violation("operation-raised", f"{type(exc).__name__}: {exc} (n={n}, sequence seed {seed})", case)
    finally:
        ctx.count("invariant_evaluations", _INV["n"] - inv0)


def run(ctx) -> None:
    if ctx.tier == "thorough" and ctx.shard == ctx.nshards - 1:
        # the repository's own tests as one more workload for the contracts (vmon/contracts.py)
        from ..contracts_suite import run_repo_tests
        run_repo_tests(ctx, ['incomplete_cooperative/tests/test_game.py', 'incomplete_cooperative/tests/test_normalize.py', 'incomplete_cooperative/tests/test_exploitability.py'], 'game')
    rng = ctx.rng
    while not ctx.out_of_time(1.0):
        n = rng.choice([1, 2, 2, 3, 3, 4, 4, 5] * 6 + [8, 9])      # beyond 8 players coalition ids leave the 8-bit range
        run_sequence(ctx, {"n": n, "seq_seed": rng.randint(0, 2**31), "length": rng.randint(1, 40 if n <= 5 else 12)})


def replay(ctx, case) -> None:
    if case.get("kind") == "repo-tests":
        from ..contracts_suite import run_repo_tests
        run_repo_tests(ctx, case["files"], case["contracts"])
        return
    run_sequence(ctx, case)

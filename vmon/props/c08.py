"""C08 — bounds depend only on current knowledge: idempotent, order-free, undoable.

Monitor: the table of a long-lived real game object (visited through many histories, with stale contents) is
compared bit-for-bit with the canonical table a fresh object computes from the same knowledge; at the environment
level step(a)/unstep(a) must restore table, reward and observation exactly.
"""
from __future__ import annotations

import numpy as np

from incomplete_cooperative.bounds import BOUNDS
from incomplete_cooperative.coalitions import Coalition, minimal_game_coalitions
from incomplete_cooperative.game import IncompleteCooperativeGame
from incomplete_cooperative.icg_gym import ICG_Gym
from incomplete_cooperative.exploitability import compute_exploitability
from incomplete_cooperative.norms import l1_norm, l2_norm, linf_norm

from .. import boundcore, gen, sut
from ..refmodel import minimal_masks

LEVEL = "exploration"
RULE = ("case = one visit of a knowledge state K by a long-lived real game object (after reveal / un-reveal / set / "
        "unset / bulk reset / garbage bulk bound writes / repeated computes), compared bit-for-bit (known flags, lower, "
        "upper bytes) with the table of a FRESH object given K and the same registered computer; plus compute twice = "
        "compute once; plus env-level step(a);unstep(a) restoring table, reward and observation bytes at every "
        "reachable state (n=3: all; n=4,5 sampled). All six registered computers; games superadditive, SAM and "
        "arbitrary (non-superadditive); the same knowledge set recomputed on one object after its values moved by a factor "
        "1 + 2^-18..2^-30 (bulk set or overwrite). Walks: every lattice edge in both directions (n=3; n=4 for cheap computers), "
        "random walks above (n up to 7); a sample of visits (12 quick / 150 per shard thorough, 30 % of the n=7 visits) is also "
        "compared with the table computed in a FRESH interpreter, which process-global memos cannot have polluted. Distinct = hash(values, K, computer, predecessor state); non-trivial = the table changed "
        "across the step that led to the visit.")
SHARDS = {"quick": 4, "thorough": 16}
BUDGET = {"quick": 45, "thorough": 420}
REQUIRED = ["nearby_value_recomputations", "visits_compared", "idempotence_checks", "env_step_unstep_pairs", "euler_walks", "dirty_histories", "fresh_process_tables_compared"]

GAPS = {"exploitability": compute_exploitability, "l1_norm": l1_norm, "l2_norm": l2_norm, "linf_norm": linf_norm}


def canonical(cache, n, values, comp, K):
    key = frozenset(K)
    if key not in cache:
        g = sut.new_game(n, BOUNDS[comp])
        sut.set_knowledge(g, values, sorted(K))
        g.compute_bounds()
        cache[key] = sut.table_bytes(g)
    return cache[key]


def fresh_process_table(n, values, comp, K) -> bytes | None:
    """The table computed in a FRESH interpreter that has never computed anything else (process-global memos cannot
    have been polluted there)."""
    import json
    import subprocess
    from .. import env as venv
    code = ("import sys, json; from vmon import sut; from incomplete_cooperative.bounds import BOUNDS; "
            "r = json.loads(sys.stdin.read()); g = sut.new_game(r['n'], BOUNDS[r['comp']]); "
            "sut.set_knowledge(g, r['values'], r['K']); g.compute_bounds(); sys.stdout.write(sut.table_bytes(g).hex())")
    try:
        r = subprocess.run([venv.PYTHON, "-c", code], input=json.dumps({"n": n, "values": list(values), "comp": comp, "K": sorted(K)}),
                           capture_output=True, text=True, env=venv.child_env(), cwd=str(venv.ROOT), timeout=120)
        return bytes.fromhex(r.stdout.strip()) if r.returncode == 0 else None
    except Exception:
        return None


def game_for(rng, n, comp):
    r = rng.random()
    if r < 0.12:
        # a superadditive game (where intervals of unknown coalitions often collapse) with a few values changed: the true
        # value of a coalition then differs from its collapsed interval ("measured data", games of any class)
        v = gen.sa_game(rng, n, rng.choice(["addsur_int", "int", "convex_int"]))[0]
        for m in rng.sample(gen.explorable(n), min(len(gen.explorable(n)), rng.randint(1, 3))):
            v[m] += rng.choice([-3, -2, -1, 1, 2, 3])
        return "sa_perturbed", v
    if r < 0.25:
        fam = rng.choice(["arbitrary_int", "arbitrary_float"])
        v = [0.0] + [float(rng.randint(-9, 9)) if fam == "arbitrary_int" else rng.uniform(-5, 5) for _ in range((1 << n) - 1)]
        return fam, v
    if comp.startswith("sam") and r < 0.7:
        fam = rng.choice(gen.SAM_FAMILIES)
        return fam, gen.sam_game(rng, n, fam)[0]
    fam = rng.choice(gen.SA_FAMILIES)
    return fam, gen.sa_game(rng, n, fam)[0]


def walk_case(ctx, case) -> None:
    """case: n, values, computer, ops (boundcore ops).  Every compute in the history is a visit."""
    n, values, comp = case["n"], case["values"], case["computer"]
    cache = case.setdefault("_cache", {})
    game = sut.object_for_case(ctx, case, comp)
    state = {"prev": None, "i": 0}

    def on_compute(g):
        K = boundcore.known_set_of(g)
        got = sut.table_bytes(g)
        want = canonical(cache, n, values, comp, K)
        ctx.count("visits_compared")
        state["i"] += 1
        if case.get("_fresh_budget", [0])[0] > 0 and (case.get("_force_fresh") or ctx.rng.random() < (0.3 if n >= 7 else 0.02)):
            case["_fresh_budget"][0] -= 1
            fp = fresh_process_table(n, values, comp, K)
            if fp is None:
                ctx.count("fresh_process_tables_failed")
            else:
                ctx.count("fresh_process_tables_compared")
                if fp != got:
                    c = {k: v for k, v in case.items() if not k.startswith("_")}
                    ctx.violation("history-dependent-bounds", f"table differs from the table a FRESH PROCESS computes for the same "
                                  f"knowledge K={K} (n={n}, computer={comp}, family={case['family']}): process-global state", c)
        if got != want:
            c = {k: v for k, v in case.items() if not k.startswith("_")}
            ctx.violation("history-dependent-bounds", f"table after history differs from a fresh object's table for the same "
                          f"knowledge K={K} (n={n}, computer={comp}, family={case['family']}, compute #{state['i']})", c)
        if ctx.rng.random() < 0.25:
            g.compute_bounds()
            ctx.count("idempotence_checks")
            if sut.table_bytes(g) != got:
                c = {k: v for k, v in case.items() if not k.startswith("_")}
                ctx.violation("compute-not-idempotent", f"second compute_bounds() changed the table (n={n}, computer={comp}, K={K})", c)
        ctx.case((values, K, comp, state["prev"]), state["prev"] != got,
                 sample=({"n": n, "family": case["family"], "computer": comp, "K": K, "history_computes": state["i"]}
                         if state["i"] == 5 else None))
        state["prev"] = got
    try:
        boundcore.apply_ops(game, values, case["ops"], on_compute)
    except Exception as exc:
        c = {k: v for k, v in case.items() if not k.startswith("_")}
        ctx.violation("raised-during-history", f"{type(exc).__name__}: {exc} (n={n}, computer={comp})", c)


def nearby_case(ctx, case) -> None:
    """One long-lived object, the SAME knowledge set, but the known values replaced by those of a game that differs in the
    twentieth binary digit (every value times 1 + 2^-k, exact on the integer families): the bounds must be those of the new
    values - "current knowledge" includes the values, however close they are to the ones computed last."""
    n, values, comp, K = case["n"], case["values"], case["computer"], sorted(case["K"])
    game = sut.new_game(n, BOUNDS[comp])
    try:
        sut.set_knowledge(game, values, K)
        game.compute_bounds()
        for step, (k, how) in enumerate(case["moves"]):
            f = 1.0 + 2.0 ** -k
            v2 = [float(x) * f for x in values]
            if how == "bulk":
                sut.set_knowledge(game, v2, K)
            else:
                for m in K:
                    if m:
                        game.set_value(v2[m], Coalition(m))
            game.compute_bounds()
            got = sut.table_bytes(game)
            want = canonical({}, n, v2, comp, K)
            ctx.count("nearby_value_recomputations")
            changed = want != canonical({}, n, values, comp, K)
            ctx.case((tuple(values), tuple(K), comp, k, how), changed)
            if got != want:
                ctx.violation("history-dependent-bounds", f"{comp}: same knowledge set, values scaled by 1+2^-{k} through "
                              f"{how}: table differs from a fresh object's after move {step}", case)
                return
    except Exception as exc:
        ctx.violation("raised-during-history", f"{type(exc).__name__}: {exc} (nearby values)", case)


def euler_ops(n, rng):
    ops = [["set_known", sorted(minimal_masks(n))], ["compute"]]
    cur = set()
    for m in gen.euler_walk(n, rng):
        ops.append(["unreveal" if m in cur else "reveal", m])
        cur ^= {m}
        ops.append(["compute"])
    return ops


def env_case(ctx, case) -> None:
    """step(a); unstep(a) must restore everything exactly, at the state reached by case['actions']."""
    n, values, comp, gapname = case["n"], case["values"], case["computer"], case["gap"]
    hidden = sut.full_game(values)
    inc = IncompleteCooperativeGame(n, BOUNDS[comp])
    try:
        env = ICG_Gym(inc, lambda: hidden.copy(), minimal_game_coalitions(inc), GAPS[gapname])
        for a in case["actions"]:
            env.step(a)

        def snap():
            return (sut.table_bytes(env.incomplete_game), np.array(env.state).tobytes(), np.float64(env.reward).tobytes(),
                    env.steps_taken, bool(env.done), env.action_masks().tobytes())
        before = snap()
        for a in [int(x) for x in np.nonzero(env.action_masks())[0]]:
            env.step(a)
            mid = snap()
            # the table the env shows after the step must be the table of its current knowledge (fresh object, same computer)
            Kmid = boundcore.known_set_of(env.incomplete_game)
            ctx.count("env_tables_compared_with_fresh")
            if mid[0] != canonical(case.setdefault("_cache", {}), n, values, comp, Kmid):
                ctx.violation("history-dependent-bounds", f"after env.step({a}) the table differs from a fresh object's table for the same "
                              f"knowledge K={Kmid} (n={n}, computer={comp}, gap={gapname}, after actions {case['actions']})",
                              {k: v for k, v in case.items() if not k.startswith("_")})
            env.unstep(a)
            after = snap()
            ctx.count("env_step_unstep_pairs")
            if after != before:
                names = ["table", "observation", "reward", "steps_taken", "done", "mask"]
                diff = [nm for nm, x, y in zip(names, before, after) if x != y]
                ctx.violation("unstep-does-not-restore", f"step({a});unstep({a}) changed {diff} (n={n}, computer={comp}, "
                              f"gap={gapname}, after actions {case['actions']})", case)
                before = after
            if ctx.rng.random() < 0.5:
                # interleaved undo: reveal a, reveal b, take a back, take b back (and the LIFO order) must also restore everything
                others = [int(x) for x in np.nonzero(env.action_masks())[0] if int(x) != a]
                if others:
                    b = ctx.rng.choice(others)
                    for order in ((a, b, a, b), (a, b, b, a)):
                        env.step(order[0])
                        env.step(order[1])
                        env.unstep(order[2])
                        env.unstep(order[3])
                        ctx.count("env_interleaved_undo_sequences")
                        if snap() != before:
                            names = ["table", "observation", "reward", "steps_taken", "done", "mask"]
                            diff = [nm for nm, x, y in zip(names, before, snap()) if x != y]
                            ctx.violation("unstep-does-not-restore", f"step({order[0]});step({order[1]});unstep({order[2]});unstep({order[3]}) "
                                          f"changed {diff} (n={n}, computer={comp}, gap={gapname}, after actions {case['actions']})", case)
                            before = snap()
            ctx.case((values, tuple(case["actions"]), a, comp, gapname), mid[0] != before[0],
                     sample=({"n": n, "computer": comp, "gap": gapname, "actions": case["actions"], "probe": a}
                             if a == 0 and len(case["actions"]) == 1 else None))
    except Exception as exc:
        ctx.violation("raised-in-env", f"{type(exc).__name__}: {exc} (n={n}, computer={comp})", case)


def run(ctx) -> None:
    if ctx.tier == "thorough" and ctx.shard == ctx.nshards - 1:
        # the repository's own tests as one more workload for the contracts (vmon/contracts.py)
        from ..contracts_suite import run_repo_tests
        run_repo_tests(ctx, ['incomplete_cooperative/tests/test_gameplay.py', 'incomplete_cooperative/tests/test_gym.py'], 'compute,env')
    rng = ctx.rng
    quick = ctx.tier == "quick"
    comps = list(BOUNDS.keys())
    # guaranteed minimum, independent of the time budget: histories with stale garbage and fresh-interpreter tables
    for comp0 in ("superadditive_cached", "sam_apx_1"):
        v0 = gen.sa_game(rng, 4, "int")[0] if comp0.startswith("super") else gen.sam_game(rng, 4, "sam_int")[0]
        K0 = gen.random_knowledge_set(rng, 4)
        walk_case(ctx, {"n": 4, "family": "minimum_pass", "values": v0, "computer": comp0, "kind": "walk", "_fresh_budget": [1],
                        "ops": boundcore.make_history(rng, 4, K0, "dirty") + [["compute"], ["compute"]], "_force_fresh": True})
        ctx.count("dirty_histories")
    # guaranteed minimum: a bulk set (no reset) right after a computation, then compute again
    for comp0 in ("superadditive_cached", "superadditive", "sam_apx_1", "superadditive_cached"):
        v0 = gen.sam_game(rng, 4, "sam_int")[0] if comp0.startswith("sam") else gen.sa_game(rng, 4, rng.choice(["int", "int_neg", "float"]))[0]
        ex0 = gen.explorable(4)
        rng.shuffle(ex0)
        walk_case(ctx, {"n": 4, "family": "bulk_set_after_compute", "values": v0, "computer": comp0, "kind": "walk",
                        "ops": [["set_known", sorted(minimal_masks(4)) + sorted(ex0[:2])], ["compute"], ["bulk_set", sorted(ex0[1:5])], ["compute"],
                                ["bulk_set", sorted(ex0[4:8])], ["compute"], ["compute"]]})
    # guaranteed minimum: the same knowledge set with values that moved in the 20th-30th binary digit
    for comp0 in ("superadditive", "superadditive_cached", "sam_apx_1", "sam_apx_10"):
        for n0 in (3, 4):
            v0 = gen.sam_game(rng, n0, "sam_int")[0] if comp0.startswith("sam") else gen.sa_game(rng, n0, rng.choice(["int", "int_neg"]))[0]
            nearby_case(ctx, {"kind": "nearby", "n": n0, "family": "nearby_values", "values": v0, "computer": comp0,
                              "K": gen.random_knowledge_set(rng, n0),
                              "moves": [[rng.choice([18, 20, 24, 30]), rng.choice(["bulk", "overwrite"])] for _ in range(3)]})
    for comp in comps:
        fam, values = game_for(rng, 3, comp)
        walk_case(ctx, {"n": 3, "family": fam, "values": values, "computer": comp, "ops": euler_ops(3, rng), "kind": "euler"})
        ctx.count("euler_walks")
    comps4 = ["superadditive_cached", "sam_apx_1", "sam_apx_10", "superadditive"] + ([] if quick else ["sam_apx_100"])
    comp = comps4[ctx.shard % len(comps4)]
    if not (quick and comp == "superadditive"):
        fam, values = game_for(rng, 4, comp)
        walk_case(ctx, {"n": 4, "family": fam, "values": values, "computer": comp, "ops": euler_ops(4, rng), "kind": "euler"})
        ctx.count("euler_walks")
        ctx.count("euler_walks_n4")
    # env level: all reachable states for n = 3
    for comp in comps:
        fam, values = game_for(rng, 3, comp)
        for gapname in GAPS:
            for mask in range(8):
                actions = [i for i in range(3) if mask >> i & 1]
                rng.shuffle(actions)
                env_case(ctx, {"n": 3, "family": fam, "values": values, "computer": comp, "gap": gapname, "actions": actions})
    # always: env probes on superadditive games with a few values changed (collapsed intervals whose true value differs)
    for _ in range(8 if quick else 40):
        vals_ = gen.sa_game(rng, 4, rng.choice(["addsur_int", "int", "convex_int"]))[0]
        for m_ in rng.sample(gen.explorable(4), rng.randint(1, 3)):
            vals_[m_] += rng.choice([-3, -2, -1, 1, 2, 3])
        acts_ = list(range(10))
        rng.shuffle(acts_)
        env_case(ctx, {"n": 4, "family": "sa_perturbed", "values": vals_, "computer": rng.choice(["superadditive", "superadditive_cached"]),
                       "gap": rng.choice(list(GAPS)), "actions": acts_[: rng.randint(0, 5)]})
        ctx.count("env_cases_on_perturbed_games")
    fresh_budget = [12 if quick else 150]          # fresh-interpreter canonical tables (about 0.3 s each)
    while not ctx.out_of_time(2.0):
        n = rng.choice([3, 4, 4, 5, 5, 6, 7])
        comp = rng.choice([c for c in comps if not (c == "sam_apx_1000" and n > 3) and not (c == "sam_apx_100" and n > 4)])
        if n == 7:
            comp = rng.choice(["superadditive_cached", "sam_apx_1"])
        fam, values = game_for(rng, n, comp)
        if rng.random() < 0.04:
            boundcore.poison(ctx, n, [comp])
        if rng.random() < 0.15:
            k2 = rng.choice([-40, -20, 20, 40])
            values = [v * 2.0 ** k2 for v in values]
        if rng.random() < 0.3 and n <= 5:
            if rng.random() < 0.4 and n >= 4:
                values = gen.sa_game(rng, n, rng.choice(["addsur_int", "int", "convex_int"]))[0]
                for m_ in rng.sample(gen.explorable(n), rng.randint(1, 3)):
                    values[m_] += rng.choice([-3, -2, -1, 1, 2, 3])
                fam = "sa_perturbed"
                ctx.count("env_cases_on_perturbed_games")
            ex = list(range((1 << n) - n - 2))
            rng.shuffle(ex)
            env_case(ctx, {"n": n, "family": fam, "values": values, "computer": comp, "gap": rng.choice(list(GAPS)),
                           "actions": ex[: rng.randint(0, len(ex) - 1)]})
        else:
            case = {"n": n, "family": fam, "values": values, "computer": comp, "kind": "walk", "_fresh_budget": fresh_budget}
            for _ in range(3):
                K = gen.random_knowledge_set(rng, n)
                kind = rng.choice(["walk", "dirty", "dirty"])
                case["ops"] = boundcore.make_history(rng, n, K, kind) + [["compute"], ["compute"]]
                walk_case(ctx, case)
                ctx.count("dirty_histories" if kind == "dirty" else "walk_histories")


def replay(ctx, case) -> None:
    if case.get("kind") == "repo-tests":
        from ..contracts_suite import run_repo_tests
        run_repo_tests(ctx, case["files"], case["contracts"])
        return
    if case.get("kind") == "nearby":
        nearby_case(ctx, case)
    elif "actions" in case:
        env_case(ctx, case)
    else:
        walk_case(ctx, case)

"""C09 — the reveal-one-coalition environment reflects exactly what was revealed.

Monitor: envs are built the way the CLI builds them (ModelInstance.get_env) around a recording generator; every
reset/step/unstep return value and the public state are compared with a shadow model driven by the recorded
actions and the recorded hidden game.
"""
from __future__ import annotations

import numpy as np

from incomplete_cooperative.bounds import BOUNDS
from incomplete_cooperative.coalitions import Coalition
from incomplete_cooperative.run.model import GAP_FUNCTIONS, ModelInstance

from .. import gen, sut
from ..normcore import regime
from ..refmodel import minimal_masks, ref_bounds, ref_gap_float

LEVEL = "exploration"
RULE = ("case = one env transition (reset / step / unstep) of an ICG_Gym built by ModelInstance.get_env() for a "
        "(generator family, matching computer, gap function, step budget None/k); all action orders and prefixes for "
        "n=3, random sequences with interleaved unstep/step and several resets for n=4,5. Shadow model: known = "
        "minimal + chosen with the recorded hidden values; mask = unknown explorable; observation = exact normalised "
        "hidden value * known (1e-9); reward = -(reference gap of the exact reference bounds) for SA computers and "
        "-(gap of a fresh object's table) for SAM ones, <= 0; info id; done == budget used or nothing left or all "
        "intervals degenerate; reset calls the generator exactly once, adopts that game and forgets everything else. "
        "Distinct = hash(hidden values, chosen set, op); non-trivial = reward or observation changed.")
SHARDS = {"quick": 4, "thorough": 16}
BUDGET = {"quick": 45, "thorough": 420}
REQUIRED = ["transitions_checked", "resets_checked", "unsteps_checked", "n3_all_orders_envs", "budget_envs", "sam_envs"]

SA_GENERATORS = ["factory", "factory_one", "factory_square", "factory_exp", "factory_fixed", "factory_cheerleader",
                 "factory_cheerleader_next", "noisy_factory", "noisy_factory_square", "noisy_factory_exp",
                 "noisy_factory_fixed", "predictible_factory", "graph", "graph_tirangular", "graph_beta_2_3",
                 "graph_poiss_1", "graph_random", "graph_ws_connected", "graph_internet", "graph_geometric",
                 "graph_geographical_treshold", "graph_cycle", "graph_03_03", "graph_increasing", "graph_decreasing"]
SAM_GENERATORS = ["xos", "xos_one", "xos2", "xos3", "xos12", "xos_norm_additive", "xos2_norm_additive", "xs", "xs2", "xs3",
                  "xs6", "oxs", "k_budget_generator", "covg_fn_generator"]
CONTINUOUS = {"noisy_factory", "noisy_factory_square", "noisy_factory_exp", "noisy_factory_fixed", "xos", "xos2", "xos3",
              "xos12", "xs", "oxs", "xos_norm_additive", "xos2_norm_additive"}


OFFSETS = (0.0, 0.0, 0.0, -1e6, -3e5)      # negative stand-alone worths keep both classes (superadditive, SAM)


class Recorder:
    """Wraps the instance's generator callable; records every hidden game it hands out.

    With scale != 1 the generated game is re-expressed in other units (values multiplied by `scale`, handed out as a
    value-table game): the env must behave identically for games in tiny or huge units."""

    def __init__(self, fn, scale: float = 1.0, offset: float = 0.0):
        self.fn = fn
        self.scale = scale
        self.offset = offset          # adds an additive game with stand-alone worths ~offset (class is preserved)
        self.games: list[list[float]] = []

    def __call__(self):
        g = self.fn()
        if self.scale != 1.0 or self.offset:
            from incomplete_cooperative.game import IncompleteCooperativeGame
            n = g.number_of_players
            vals = np.array(g.get_values(), dtype=np.float64) * self.scale
            if self.offset:
                # in tiny units the offset shrinks with them, otherwise the game itself would vanish below one ulp of the offset
                off = self.offset * (self.scale if self.scale < 1e-3 else 1.0)
                ids = np.arange(1 << n)
                for i in range(n):
                    vals = vals + np.where(ids >> i & 1, off * (1 + i / 8), 0.0)
            g = IncompleteCooperativeGame(n)
            g.set_values(vals)
        self.games.append([float(x) for x in g.get_values()])
        return g


def build_env(n, gen_name, comp, gapname, budget, seed, scale: float = 1.0, offset: float = 0.0):
    inst = ModelInstance(number_of_players=n, game_class=comp, game_generator=gen_name, gap_function=gapname,
                         run_steps_limit=budget, seed=seed)
    rec = Recorder(inst.game_generator_fn, scale, offset)
    inst.game_generator_fn = rec           # get_env() reads this attribute
    env = inst.get_env()
    return env, rec


class Shadow:
    def __init__(self, n, comp, gapname, budget):
        self.n, self.comp, self.gapname, self.budget = n, comp, gapname, budget
        self.minimal = sorted(minimal_masks(n))
        self.explorable = gen.explorable(n)
        self.values: list[float] = []
        self.chosen: list[int] = []
        self.steps = 0

    def known(self):
        return sorted(set(self.minimal) | set(self.chosen))

    def expected_reward(self):
        """-(gap of freshly recomputed bounds)."""
        K = self.known()
        fresh = sut.new_game(self.n, BOUNDS[self.comp])
        sut.set_knowledge(fresh, self.values, K)
        fresh.compute_bounds()
        _, flo, fup = sut.table(fresh)
        if self.comp in sut.SA_COMPUTERS:
            lo, up = ref_bounds(self.n, sut.known_dict(self.values, K))
            lo = [float(x) for x in lo]
            up = [float(x) for x in up]
        else:
            lo, up = flo.tolist(), fup.tolist()
        return -ref_gap_float(self.gapname, self.n, lo, up), (flo, fup)


def compare(ctx, case, env, sh: Shadow, ret, op: str, action=None) -> bool:
    """All C09 clauses on the state after `op`. Returns non-trivial flag."""
    n = sh.n
    inc = env.incomplete_game
    scale = float(np.max(np.abs(np.array(sh.values))))
    tol = sut.gap_tol(n, scale)

    def bad(mech, msg):
        c = dict(case)
        c["failed_after"] = {"op": op, "action": action, "chosen": list(sh.chosen), "hidden_values": sh.values}
        ctx.violation(mech, f"{msg} [after {op}({action}), chosen={sh.chosen}, n={n}, generator={case['generator']}, "
                            f"computer={sh.comp}, gap={sh.gapname}, budget={sh.budget}]", c)
    ctx.count("transitions_checked")
    known = np.array(inc.are_values_known(), dtype=bool)
    want_known = np.zeros(1 << n, dtype=bool)
    want_known[sh.known()] = True
    if not np.array_equal(known, want_known):
        bad("known-set-wrong", f"known {np.nonzero(known)[0].tolist()} expected {sh.known()}")
        return False
    kv = np.array(inc.get_known_values())
    truth = np.array(sh.values)
    if not np.array_equal(kv[want_known], truth[want_known]):
        i = int(np.nonzero(want_known & (kv != truth))[0][0])
        bad("known-value-not-hidden-value", f"coalition {i}: known value {kv[i]!r}, hidden {truth[i]!r}")
    mask = np.array(env.action_masks(), dtype=bool)
    want_mask = np.array([m not in sh.chosen for m in sh.explorable], dtype=bool)
    if mask.shape != want_mask.shape or not np.array_equal(mask, want_mask):
        bad("mask-wrong", f"mask {mask.astype(int).tolist()} expected {want_mask.astype(int).tolist()}")
    kind, norm, tau = regime(n, sh.values)
    obs = np.array(env.state, dtype=np.float64)
    if kind == "band":
        ctx.count("ill_conditioned_normalisation_skipped")
    else:
        want_obs = np.array([(float(norm[m]) if kind == "regular" else 0.0) if m in sh.chosen else 0.0 for m in sh.explorable])
        ctx.count(f"observation_checks_{kind}")
        if obs.shape != want_obs.shape or not np.allclose(obs, want_obs, rtol=0, atol=max(tau, 1e-9)):
            bad("observation-wrong", f"observation {obs.tolist()} expected {want_obs.tolist()}")
    want_reward, (flo, fup) = sh.expected_reward()
    reward = float(env.reward)
    if not abs(reward - want_reward) <= tol:
        bad("reward-not-fresh-gap", f"reward {reward!r}, -(gap of freshly recomputed bounds) {want_reward!r}")
    if reward > tol:
        bad("reward-positive", f"reward {reward!r} > 0")
    _, lo, up = sut.table(inc)
    if not (np.allclose(lo, flo, rtol=1e-12, atol=1e-12) and np.allclose(up, fup, rtol=1e-12, atol=1e-12)):
        bad("bounds-not-fresh", "table of the env's game differs from a freshly computed table for the same knowledge")
    want_done = (sh.budget is not None and sh.steps >= sh.budget) or (not want_mask.any()) or bool(np.all((up - lo) == 0))
    if bool(env.done) != want_done:
        bad("done-wrong", f"done {env.done} expected {want_done} (steps {sh.steps}, budget {sh.budget})")
    if ret is not None and op in ("step", "unstep"):
        r_state, r_reward, r_done, r_trunc, r_info = ret
        if not np.array_equal(np.array(r_state), obs):
            bad("returned-observation-differs", "returned observation differs from env.state")
        if not abs(float(r_reward) - reward) <= 1e-12 * (1 + abs(reward)):
            bad("returned-reward-differs", f"returned reward {r_reward!r} vs env.reward {reward!r}")
        if bool(r_done) != bool(env.done):
            bad("returned-done-differs", f"returned done {r_done} vs env.done {env.done}")
        if r_trunc is not False:
            bad("truncated-flag", f"truncated {r_trunc!r}")
        if r_info.get("chosen_coalition") != sh.explorable[action]:
            bad("info-id-wrong", f"info {r_info!r}, revealed coalition id {sh.explorable[action]}")
    if ret is not None and op == "reset":
        r_state, r_info = ret
        if not np.array_equal(np.array(r_state), obs):
            bad("returned-observation-differs", "reset observation differs from env.state")
        if [float(x) for x in r_info["game"].get_values()] != sh.values:
            bad("reset-info-game-wrong", "info['game'] is not the newly drawn hidden game")
    return True


def drive(ctx, case) -> None:
    """case: n, generator, computer, gap, budget, seed, script = list of ['reset'] | ['step', a] | ['unstep', a]."""
    n = case["n"]
    try:
        env, rec = build_env(n, case["generator"], case["computer"], case["gap"], case["budget"], case["seed"], case.get("scale", 1.0), case.get("offset", 0.0))
    except Exception as exc:
        ctx.violation("env-construction-raised", f"{type(exc).__name__}: {exc} ({case['generator']}, n={n})", case)
        return
    sh = Shadow(n, case["computer"], case["gap"], case["budget"])
    calls = len(rec.games)
    sh.values = rec.games[-1]
    if [float(x) for x in env.full_game.get_values()] != sh.values:
        ctx.violation("hidden-game-not-last-drawn", "after construction env.full_game is not the last generated game", case)
    last_reward = last_obs = None
    compare(ctx, case, env, sh, None, "init")
    for op in case["script"]:
        try:
            if op[0] == "reset":
                prev_values = sh.values
                ret = env.reset()
                ctx.count("resets_checked")
                if len(rec.games) != calls + 1:
                    ctx.violation("reset-generator-calls", f"reset called the generator {len(rec.games) - calls} times", case)
                calls = len(rec.games)
                sh.values, sh.chosen, sh.steps = rec.games[-1], [], 0
                if [float(x) for x in env.full_game.get_values()] != sh.values:
                    ctx.violation("reset-kept-old-game", "after reset env.full_game is not the newly drawn game", case)
                if case["generator"] in CONTINUOUS and sh.values == prev_values:
                    ctx.violation("reset-replayed-game", "reset drew a hidden game identical to the previous one", case)
                compare(ctx, case, env, sh, ret, "reset")
            elif op[0] == "step":
                a = op[1]
                if sh.explorable[a] in sh.chosen:
                    continue
                ret = env.step(a)
                sh.chosen.append(sh.explorable[a])
                sh.steps += 1
                compare(ctx, case, env, sh, ret, "step", a)
            else:
                a = op[1]
                if sh.explorable[a] not in sh.chosen:
                    continue
                ret = env.unstep(a)
                ctx.count("unsteps_checked")
                sh.chosen.remove(sh.explorable[a])
                sh.steps -= 1
                compare(ctx, case, env, sh, ret, "unstep", a)
        except Exception as exc:
            c = dict(case)
            c["failed_op"] = op
            ctx.violation("env-raised", f"{type(exc).__name__}: {exc} during {op} (chosen={sh.chosen}, {case['generator']}, "
                                        f"{case['computer']}, n={n})", c)
            return
        reward, obs = float(env.reward), np.array(env.state).tobytes()
        ctx.case((sh.values, sorted(sh.chosen), op[0]), (reward, obs) != (last_reward, last_obs),
                 sample=({"n": n, "generator": case["generator"], "computer": case["computer"], "gap": case["gap"],
                          "budget": case["budget"], "op": op, "chosen": list(sh.chosen), "reward": reward,
                          "observation": np.array(env.state).tolist()} if len(sh.chosen) == 2 else None))
        last_reward, last_obs = reward, obs


def pick_config(rng, quick):
    if rng.random() < 0.45:
        g = rng.choice(SAM_GENERATORS)
        comp = rng.choice(list(BOUNDS.keys())[:5] if True else [])      # any but sam_apx_1000 in random envs
    else:
        g = rng.choice(SA_GENERATORS)
        comp = rng.choice(sut.SA_COMPUTERS)
    return g, comp, rng.choice(list(GAP_FUNCTIONS))


def run(ctx) -> None:
    if ctx.tier == "thorough" and ctx.shard == ctx.nshards - 1:
        # the repository's own tests as one more workload for the contracts (vmon/contracts.py)
        from ..contracts_suite import run_repo_tests
        run_repo_tests(ctx, ['incomplete_cooperative/tests/test_gym.py', 'incomplete_cooperative/tests/test_icg_gym_linear.py'], 'env')
        from ..contracts_suite import run_cli_under_contracts
        cmds = []
        for solver in ("greedy", "largest", "random", "greedy_worst"):
            cmds.append(["--number-of-players", str(ctx.rng.choice([3, 4])), "--game-generator", ctx.rng.choice(["noisy_factory", "xos", "graph_cycle", "factory"]),
                         "--game-class", ctx.rng.choice(["superadditive", "superadditive_cached"]), "--seed", str(ctx.rng.randint(0, 10**6)),
                         "--unique-name", f"r{solver}", "--parallel-environments", "1", "--run-steps-limit", "3",
                         "solve", "--solver", solver, "--solve-repetitions", "4"])
        cmds.append(["--number-of-players", "3", "--game-generator", "noisy_factory", "--seed", "5", "--unique-name", "g", "--run-steps-limit", "2",
                     "--parallel-environments", "1", "greedy", "--sampling-repetitions", "2"])
        cmds.append(["--number-of-players", "3", "--game-generator", "xs", "--game-class", "sam_apx_10", "--seed", "7", "--unique-name", "b",
                     "--run-steps-limit", "2", "--parallel-environments", "1", "best_states", "--sampling-repetitions", "2", "--eval-repetitions", "1"])
        run_cli_under_contracts(ctx, cmds)
    rng = ctx.rng
    quick = ctx.tier == "quick"
    from itertools import permutations
    # n = 3: every order and every prefix, with unstep of the last action and re-step
    orders = list(permutations(range(3)))
    combos = []
    for g in (SA_GENERATORS + SAM_GENERATORS):
        comp = rng.choice(list(BOUNDS.keys())) if g in SAM_GENERATORS else rng.choice(sut.SA_COMPUTERS)
        combos.append((g, comp))
    rng.shuffle(combos)
    combos = [("xos", "sam_apx_1"), ("noisy_factory", "superadditive")] * ctx.nshards + combos      # guaranteed minimum per shard
    for i, (g, comp) in enumerate(combos):
        if i % ctx.nshards != ctx.shard % ctx.nshards and quick:
            continue
        if ctx.out_of_time(ctx.budget_s * 0.5):
            break
        script = []
        for order in orders:
            script.append(["reset"])
            for a in order:
                script.append(["step", a])
            script += [["unstep", order[-1]], ["step", order[-1]], ["unstep", order[0]], ["step", order[0]]]
        b3 = [None, 2, 1, 3][i % 4]        # deterministic mix of step budgets over the n = 3 envs
        if b3 is not None:
            ctx.count("budget_envs")
        drive(ctx, {"n": 3, "generator": g, "computer": comp, "gap": rng.choice(list(GAP_FUNCTIONS)),
                    "budget": b3, "seed": rng.randint(0, 10**6), "script": script,
                    "scale": rng.choice(sut.SCALES), "offset": rng.choice(OFFSETS)})
        ctx.count("n3_all_orders_envs")
        if comp.startswith("sam"):
            ctx.count("sam_envs")
    while not ctx.out_of_time(2.0):
        n = rng.choice([4, 4, 4, 5, 5, 5, 6])
        g, comp, gapname = pick_config(rng, quick)
        if n == 6:
            comp, g = "superadditive_cached", rng.choice(SA_GENERATORS[:12])
        nexp = (1 << n) - n - 2
        budget = rng.choice([None, None, rng.randint(1, nexp)])
        script = []
        for _ in range(rng.randint(1, 3)):
            script.append(["reset"])
            done_set: list[int] = []
            for _ in range(rng.randint(1, nexp + 2)):
                r = rng.random()
                if r < 0.7 or not done_set:
                    a = rng.randrange(nexp)
                    if a not in done_set:
                        done_set.append(a)
                        script.append(["step", a])
                else:
                    a = rng.choice(done_set)
                    done_set.remove(a)
                    script.append(["unstep", a])
            if rng.random() < 0.3:
                # take everything back (the env is at its initial knowledge again) right before the next reset
                while done_set:
                    script.append(["unstep", done_set.pop(rng.randrange(len(done_set)))])
        drive(ctx, {"n": n, "generator": g, "computer": comp, "gap": gapname, "budget": budget,
                    "seed": rng.randint(0, 10**6), "script": script, "scale": rng.choice(sut.SCALES), "offset": rng.choice(OFFSETS)})
        ctx.count(f"n{n}_envs")
        if budget is not None:
            ctx.count("budget_envs")
        if comp.startswith("sam"):
            ctx.count("sam_envs")


def replay(ctx, case) -> None:
    if case.get("kind") == "cli-contracts":
        from ..contracts_suite import run_cli_under_contracts
        run_cli_under_contracts(ctx, [case["args"]], case["contracts"])
        return
    if case.get("kind") == "repo-tests":
        from ..contracts_suite import run_repo_tests
        run_repo_tests(ctx, case["files"], case["contracts"])
        return
    drive(ctx, case)

"""C05 — exploitability = summed best-case Shapley gain = binomially weighted gap.

Monitor: the real compute_exploitability() is called on real game objects (and on an independent duck-typed
implementation of the IncompleteGame protocol) whose bound vectors were written through the public setters; the
returned number is compared with the two closed forms in exact rationals, and the real Shapley entry point is run
on completions inside the box to observe domination by the per-player maximum the library uses.
"""
from __future__ import annotations

from fractions import Fraction

import numpy as np

from incomplete_cooperative.coalitions import Coalition
from incomplete_cooperative.exploitability import MaxGainGame, compute_exploitability
from incomplete_cooperative.game import IncompleteCooperativeGame
from incomplete_cooperative.shapley import compute_shapley_value_for_player

from ..refmodel import fr, popcount, ref_gap_exploitability, ref_shapley_perm, ref_shapley_subset

LEVEL = "exploration"
RULE = ("case = (n in 2..10, lower/upper bound vector with known grand coalition and empty coalition 0) written "
        "through the public setters of the real game object or held by an independent duck-typed IncompleteGame; "
        "families: integer, dyadic, float widths, per-size widths, single-coalition unit perturbations (isolate each "
        "coalition's weight), all-degenerate, lower>upper somewhere (identity only). Oracles in exact rationals: "
        "value == sum_S (u-l)/C(n,|S|); value == sum_i Shapley_i(vertex game of i) - v(N); value >= 0 when l<=u; "
        "value ~ 0 iff all intervals degenerate; for sampled completions inside the box the real Shapley value of each "
        "player never exceeds the library's per-player maximum. Tolerance 1e-10*(1+sum|bounds|). Distinct = hash of "
        "the bound vector; non-trivial = at least two different interval widths. Additionally one SYMBOLIC execution per n=2..7 "
        "(8 in thorough): bounds are linear forms (vmon/linform.py) pushed through the real code; every coefficient of the "
        "resulting form is compared with both closed forms, which decides the identity for all real bound vectors of that n.")
SHARDS = {"quick": 4, "thorough": 16}
BUDGET = {"quick": 35, "thorough": 360}
REQUIRED = ["identity_checks", "max_shapley_checks", "domination_checks", "unit_perturbations", "duck_typed_games"]


class DuckIncompleteGame:
    """Minimal independent implementation of the IncompleteGame protocol (no repository base class)."""

    def __init__(self, n, lower, upper, known):
        self.number_of_players = n
        self._lo = np.array(lower, dtype=np.float64)
        self._up = np.array(upper, dtype=np.float64)
        self._known = np.array(known, dtype=bool)

    def _sel(self, arr, coalitions):
        return arr.copy() if coalitions is None else arr[[c.id for c in coalitions]]

    def get_values(self, coalitions=None):
        return self._sel(self._lo, coalitions)

    def get_value(self, coalition):
        if not self._known[coalition.id]:
            raise ValueError("unknown")
        return self._lo[coalition.id]

    def copy(self):
        return DuckIncompleteGame(self.number_of_players, self._lo, self._up, self._known)

    def __add__(self, other):
        raise NotImplementedError

    def get_upper_bound(self, c): return self._up[c.id]
    def get_lower_bound(self, c): return self._lo[c.id]
    def get_upper_bounds(self, coalitions=None): return self._sel(self._up, coalitions)
    def get_lower_bounds(self, coalitions=None): return self._sel(self._lo, coalitions)
    def get_interval(self, c): return np.array([self._lo[c.id], self._up[c.id]])
    def get_intervals(self, coalitions=None): return np.stack([self.get_lower_bounds(coalitions), self.get_upper_bounds(coalitions)], 1)
    def is_value_known(self, c): return bool(self._known[c.id])
    def are_values_known(self, coalitions=None): return self._sel(self._known, coalitions)
    def get_known_value(self, c): return self._lo[c.id] if self._known[c.id] else None
    def get_known_values(self, coalitions=None): return self._sel(np.where(self._known, self._lo, np.nan), coalitions)
    def compute_bounds(self): pass


_REUSE: dict = {}


def build_real(n, lo, up, known, style: int, reuse_rng=None):
    if reuse_rng is not None and n in _REUSE and reuse_rng.random() < 0.5:
        g = _REUSE[n]                       # the same object re-filled: a memo keyed by identity / size would go stale
        g.set_known_values([0.0], [Coalition(0)])
    else:
        g = IncompleteCooperativeGame(n)
        _REUSE[n] = g
    size = 1 << n
    if style == 0:      # scalar setters
        for s in range(size):
            if known[s]:
                g.set_value(lo[s], Coalition(s))
            else:
                g.set_lower_bound(lo[s], Coalition(s))
                g.set_upper_bound(up[s], Coalition(s))
    else:               # bulk setters (only touch unknown rows)
        ks = [s for s in range(size) if known[s]]
        g.set_known_values([lo[s] for s in ks], [Coalition(s) for s in ks])
        g.set_lower_bounds(np.array(lo, dtype=np.float64))
        g.set_upper_bounds(np.array(up, dtype=np.float64))
    return g


def gen_vector(rng, n):
    size = 1 << n
    fam = rng.choice(["int", "dyadic", "float", "per_size", "unit", "degenerate", "crossed", "some_known", "negative",
                      "narrow_big", "narrow_small", "one_narrow", "offset_box", "minor_player", "minor_player"])
    known = [False] * size
    known[0] = known[size - 1] = True
    if fam == "int":
        lo = [float(rng.randint(-5, 5)) for _ in range(size)]
        up = [l + rng.randint(0, 6) for l in lo]
    elif fam == "dyadic":
        lo = [rng.randint(-40, 40) / 8 for _ in range(size)]
        up = [l + rng.randint(0, 48) / 8 for l in lo]
    elif fam in ("float", "some_known", "negative"):
        base = -50 if fam == "negative" else 0
        lo = [base + rng.uniform(-3, 3) for _ in range(size)]
        up = [l + rng.random() * rng.choice([0, 1, 10]) for l in lo]
        if fam == "some_known":
            for s in range(size):
                if rng.random() < 0.4:
                    known[s] = True
    elif fam == "narrow_big":      # payoffs around 1e6 with unit gaps (narrow relative to the value scale)
        lo = [1e6 * rng.randint(1, 9) + rng.randint(0, 50) for _ in range(size)]
        up = [l + rng.randint(0, 2) for l in lo]
    elif fam == "narrow_small":    # order-one payoffs with 1e-6 gaps
        lo = [rng.uniform(-3, 3) for _ in range(size)]
        up = [l + rng.random() * 1e-6 for l in lo]
    elif fam == "one_narrow":      # a single coalition unknown to a 1e-7 fraction of its value
        lo = [rng.uniform(1, 100) for _ in range(size)]
        up = list(lo)
        s1 = rng.randrange(1, size - 1) if size > 2 else 1
        up[s1] = lo[s1] * (1 + 1e-7)
    elif fam == "offset_box":      # every bound near one huge common value, tiny differences between coalitions
        base = rng.choice([1e6, -1e7])
        lo = [base + rng.uniform(0, 3) for _ in range(size)]
        up = [l + rng.random() * rng.choice([0, 1, 2]) for l in lo]
        if rng.random() < 0.6:
            for i in range(n):          # players worth (about) nothing alone who add a little to huge coalitions
                lo[1 << i] = up[1 << i] = 0.0
    elif fam == "minor_player":    # one player worth nothing alone who adds a few units to coalitions worth ~1e6
        i = rng.randrange(n)
        scale_ = rng.choice([1e6, 1e7, 1e3])
        w = {}
        for t in range(size):
            if not t >> i & 1:
                w[t] = 0.0 if t == 0 else scale_ * rng.randint(1, 9) + rng.uniform(0, 3)
        lo = [w[s & ~(1 << i)] + (rng.uniform(0, 3) if (s >> i & 1 and s != 1 << i) else 0.0) for s in range(size)]
        up = [l + rng.random() * rng.choice([0, 1, 2]) for l in lo]
        lo[1 << i] = up[1 << i] = 0.0
    elif fam == "per_size":
        w = [rng.randint(0, 4) for _ in range(n + 1)]
        lo = [float(rng.randint(-2, 2)) for _ in range(size)]
        up = [lo[s] + w[popcount(s)] for s in range(size)]
    elif fam == "unit":
        lo = [float(rng.randint(-2, 2)) for _ in range(size)]
        up = list(lo)
        s = rng.randrange(1, size - 1) if size > 2 else 1
        up[s] = lo[s] + 1.0
    elif fam == "degenerate":
        lo = [rng.uniform(-3, 3) for _ in range(size)]
        up = list(lo)
    else:  # crossed: lower > upper somewhere (identity still holds, sign statement does not apply)
        lo = [float(rng.randint(-5, 5)) for _ in range(size)]
        up = [l + rng.randint(-3, 3) for l in lo]
    lo[0] = up[0] = 0.0
    for s in range(size):
        if known[s]:
            up[s] = lo[s]
    return fam, lo, up, known


def run_case(ctx, case) -> None:
    n, lo, up, known = case["n"], case["lower"], case["upper"], case["known"]
    size = 1 << n
    if case["impl"] == "duck":
        game = DuckIncompleteGame(n, lo, up, known)
        ctx.count("duck_typed_games")
    else:
        game = build_real(n, lo, up, known, case["impl"] == "real_bulk", None if ctx.replay_mode else ctx.rng)
        if ctx.rng.random() < 0.03:
            try:
                compute_exploitability(DuckIncompleteGame(n, lo[:-1], up, known))      # malformed game: raises mid-way
            except Exception:
                pass
            ctx.count("poison_calls")
    try:
        got = float(compute_exploitability(game))
    except Exception as exc:
        ctx.violation("exploitability-raised", f"{type(exc).__name__}: {exc} (n={n}, impl={case['impl']})", case)
        return
    flo = [fr(x) for x in lo]
    fup = [fr(x) for x in up]
    want = ref_gap_exploitability(n, flo, fup)
    mag = float(sum(abs(x) for x in flo) + sum(abs(x) for x in fup))
    tol = 1e-10 * (1.0 + mag)
    ctx.count("identity_checks")
    if not abs(got - float(want)) <= tol:
        ctx.violation("not-binomially-weighted-gap", f"compute_exploitability={got!r}, sum_S (u-l)/C(n,|S|)={float(want)!r} "
                      f"(n={n}, family={case['family']}, impl={case['impl']})", case)
    # per-player maxima: Shapley value of the vertex game (upper where the player is in, lower elsewhere)
    if n <= case.get("max_n_shapley", 8):
        total = Fraction(0)
        shap = ref_shapley_perm if n <= 5 else ref_shapley_subset
        maxima = []
        for i in range(n):
            vert = [fup[s] if s >> i & 1 else flo[s] for s in range(size)]
            maxima.append(shap(n, vert)[i])
        total = sum(maxima) - flo[size - 1]
        ctx.count("max_shapley_checks")
        if not abs(got - float(total)) <= tol:
            ctx.violation("not-summed-max-shapley-gain", f"compute_exploitability={got!r}, sum_i maxShapley_i - v(N)={float(total)!r} "
                          f"(n={n}, family={case['family']})", case)
        crossed = any(l > u for l, u in zip(flo, fup))
        if not crossed and n <= 7:
            # domination, observed on the real Shapley entry point
            rng = ctx.rng
            for _ in range(2):
                kind = rng.choice(["vertex", "interior", "lower", "upper"])
                if kind == "vertex":
                    w = [rng.choice((l, u)) for l, u in zip(lo, up)]
                elif kind == "interior":
                    w = [l + (u - l) * rng.random() for l, u in zip(lo, up)]
                    w = [min(max(x, l), u) for x, l, u in zip(w, lo, up)]
                else:
                    w = list(lo if kind == "lower" else up)
                comp = IncompleteCooperativeGame(n)
                comp.set_values(np.array(w, dtype=np.float64))
                for i in range(n):
                    real_max = float(compute_shapley_value_for_player(i, MaxGainGame(game, i)))
                    real_val = float(compute_shapley_value_for_player(i, comp))
                    ctx.count("domination_checks")
                    if real_val > real_max + tol:
                        c = dict(case)
                        c["completion"] = w
                        ctx.violation("completion-exceeds-player-maximum", f"player {i}: Shapley {real_val!r} of a completion "
                                      f"inside the box > per-player maximum {real_max!r} (n={n})", c)
                    if abs(real_max - float(maxima[i])) > tol:
                        ctx.violation("player-maximum-wrong", f"player {i}: library maximum {real_max!r}, exact {float(maxima[i])!r} (n={n})", case)
    # the per-player "best case" games are views: reading them (any way the Game protocol allows) must not move the bounds
    try:
        for i in range(n if n <= 6 else 2):
            view = np.array(MaxGainGame(game, i).get_values(), dtype=np.float64)
            want_view = np.array([up[s] if s >> i & 1 else lo[s] for s in range(size)])
            ctx.count("max_gain_views_read")
            if not np.array_equal(view, want_view):
                ctx.violation("player-maximum-wrong", f"MaxGainGame(game, {i}).get_values() is not (upper where {i} is in, lower elsewhere) (n={n})", case)
                break
        now_lo, now_up = np.array(game.get_lower_bounds(), dtype=np.float64), np.array(game.get_upper_bounds(), dtype=np.float64)
        again = float(compute_exploitability(game))
        if not (np.array_equal(now_lo, np.array(lo, dtype=np.float64)) and np.array_equal(now_up, np.array(up, dtype=np.float64))) or again != got:
            ctx.violation("reading-best-case-game-changes-bounds", f"after reading the per-player best-case games the bounds of the "
                          f"incomplete game changed / exploitability went from {got!r} to {again!r} (n={n}, impl={case['impl']})", case)
    except Exception as exc:
        ctx.violation("exploitability-raised", f"MaxGainGame view: {type(exc).__name__}: {exc} (n={n})", case)
    crossed = any(l > u for l, u in zip(flo, fup))
    degenerate = all(l == u for l, u in zip(flo, fup))
    if not crossed and got < -tol:
        ctx.violation("negative-exploitability", f"value {got!r} < 0 with lower <= upper everywhere (n={n})", case)
    if degenerate and abs(got) > tol:
        ctx.violation("nonzero-on-degenerate", f"value {got!r} with every interval degenerate (n={n})", case)
    if not crossed and not degenerate and float(want) > 100 * tol and got <= tol:
        ctx.violation("zero-on-nondegenerate", f"value {got!r} although some interval is non-degenerate (n={n})", case)
    if case["family"] == "unit":
        ctx.count("unit_perturbations")
    widths = {u - l for l, u in zip(flo, fup)}
    ctx.case((n, lo, up), len(widths) >= 2,
             sample={"n": n, "family": case["family"], "impl": case["impl"], "value": got, "exact": float(want),
                     "lower_head": lo[:8], "upper_head": up[:8]})


class SymbolicGame(DuckIncompleteGame):
    """Duck-typed IncompleteGame whose bounds are symbolic linear forms (vmon.linform.Lin)."""

    def __init__(self, n):
        from ..linform import Lin
        size = 1 << n
        self.number_of_players = n
        lo = [Lin.var(f"l{s}") for s in range(size)]
        up = [Lin.var(f"u{s}") for s in range(size)]
        lo[0] = up[0] = Lin()
        lo[size - 1] = up[size - 1] = Lin.var("vN")
        self._lo = np.empty(size, dtype=object)
        self._up = np.empty(size, dtype=object)
        self._lo[:] = lo
        self._up[:] = up
        self._known = np.zeros(size, dtype=bool)
        self._known[0] = self._known[size - 1] = True


def symbolic_case(ctx, n: int) -> None:
    """One execution of the real compute_exploitability on symbolic bounds: decides the identity for ALL real bound
    vectors of this player count (the code has no data-dependent branch; a comparison would raise)."""
    from math import comb
    from fractions import Fraction
    case = {"n": n, "family": "symbolic", "symbolic": True}
    size = 1 << n
    try:
        form = compute_exploitability(SymbolicGame(n))
        form.c
    except Exception as exc:
        # my own symbolic number type is not part of the property: an implementation that cannot digest it is only
        # outside the reach of this sub-check (the numeric cases still decide)
        ctx.count("symbolic_execution_unsupported")
        ctx.seen("symbolic_unsupported_reasons", f"{type(exc).__name__}: {str(exc)[:80]}")
        return
    ctx.count("symbolic_executions")
    # reference coefficients: sum_S (u_S - l_S)/C(n,|S|); the grand coalition's u and l are the same symbol vN
    want = {}
    for m in range(1, size - 1):
        w = 1.0 / comb(n, popcount(m))
        want[f"u{m}"] = w
        want[f"l{m}"] = -w
    # second closed form: sum_i Shapley_i(vertex game_i) - vN, coefficients from the n!-orderings definition
    shap = ref_shapley_perm if n <= 6 else ref_shapley_subset
    want2 = {k: Fraction(0) for k in want}
    vN = Fraction(-1)
    for m in range(1, size):
        unit = [Fraction(0)] * size
        unit[m] = Fraction(1)
        phi = shap(n, unit)
        for i in range(n):
            if m == size - 1:
                vN += phi[i]
            elif m >> i & 1:
                want2[f"u{m}"] += phi[i]
            else:
                want2[f"l{m}"] += phi[i]
    got = dict(form.c)
    for name in sorted(set(want) | set(got) | {"vN"}):
        g = got.get(name, 0.0)
        w1 = want.get(name, 0.0)
        w2 = float(want2.get(name, vN if name == "vN" else 0))
        ctx.count("symbolic_coefficients_checked")
        if abs(g - w1) > 1e-12 or abs(g - w2) > 1e-12:
            ctx.violation("not-binomially-weighted-gap" if abs(g - w1) > 1e-12 else "not-summed-max-shapley-gain",
                          f"symbolic run, n={n}: coefficient of {name} is {g!r}; binomial weight {w1!r}, summed max-Shapley "
                          f"coefficient {w2!r}", case)
            break
    if abs(form.k) > 1e-12:
        ctx.violation("not-binomially-weighted-gap", f"symbolic run, n={n}: constant term {form.k!r}", case)
    ctx.case(("symbolic", n), True, sample={"n": n, "family": "symbolic", "coefficients_head": dict(sorted(got.items())[:6])})


def run(ctx) -> None:
    rng = ctx.rng
    quick = ctx.tier == "quick"
    for n in range(2, 8 if quick else 9):
        if n % ctx.nshards == ctx.shard % ctx.nshards or n <= 4:
            symbolic_case(ctx, n)
    # every single-coalition unit perturbation for n = 2..5 (isolates each weight 1/C(n,|S|))
    for n in (2, 3, 4, 5) if quick else (2, 3, 4, 5, 6):
        size = 1 << n
        for s in range(1, size - 1):
            if s % ctx.nshards != ctx.shard % ctx.nshards and n >= 5:
                continue
            lo = [float(rng.randint(-2, 2)) for _ in range(size)]
            lo[0] = 0.0
            up = list(lo)
            up[s] += 1.0
            known = [False] * size
            known[0] = known[-1] = True
            run_case(ctx, {"n": n, "family": "unit", "lower": lo, "upper": up, "known": known,
                           "impl": rng.choice(["real_scalar", "real_bulk", "duck"])})
    ns = [2, 3, 3, 4, 4, 5, 5, 6, 6, 7, 8] + ([9, 10, 11, 12, 13, 14] if not quick else [9, 12])
    while not ctx.out_of_time(1.0):
        n = rng.choice(ns)
        fam, lo, up, known = gen_vector(rng, n)
        run_case(ctx, {"n": n, "family": fam, "lower": lo, "upper": up, "known": known,
                       "impl": rng.choice(["real_scalar", "real_bulk", "duck"])})
        ctx.count(f"n{n}")
    if quick and ctx.shard == 0:
        fam, lo, up, known = gen_vector(rng, 10)
        run_case(ctx, {"n": 10, "family": fam, "lower": lo, "upper": up, "known": known, "impl": "real_bulk"})
        ctx.count("n10")


def replay(ctx, case) -> None:
    if case.get("symbolic"):
        symbolic_case(ctx, case["n"])
    else:
        run_case(ctx, case)

"""C16 — the size-aggregated environment is a faithful abstraction of the full one.

Monitor: ICG_Gym_Linear envs built by ModelInstance(linear=True).get_env() are driven with allowed sizes until
done; around every call the inner env's knowledge, observation, reward and done flag are read through public
getters and compared with the wrapper's mask, observation and step result.
"""
from __future__ import annotations

import numpy as np

from incomplete_cooperative.run.model import GAP_FUNCTIONS, ModelInstance

from .. import gen, sut
from ..refmodel import popcount

LEVEL = "exploration"
RULE = ("case = one reset/step of an ICG_Gym_Linear built by ModelInstance(linear=True).get_env(); n=3..6, hidden "
        "games from 10 generator families, random sequences of allowed sizes until done, several resets per env, "
        "numpy's global generator (used by the wrapper for tie-breaks) seeded from VERIF_SEED; per shard nine blind episodes "
        "that drive one large size class to exhaustion (n=8: the 70 coalitions of size 4, n=7: the 35 of size 3). Oracles: mask has "
        "length n and mask[k] == (some explorable coalition of size k is unknown); step(k) makes exactly one previously "
        "unknown coalition of size k known and nothing else, info reports its id, reward and done equal the inner "
        "env's after the step; observation has length n and equals the per-size sums (explicit loops) of the inner "
        "observation after reset and after every step. Distinct = hash(hidden values, known set, size); non-trivial = "
        ">= 2 unknown coalitions of the requested size.")
SHARDS = {"quick": 4, "thorough": 16}
BUDGET = {"quick": 40, "thorough": 360}
REQUIRED = ["size_classes_exhausted", "steps_checked", "resets_checked", "mask_checks", "episodes_to_done", "steps_on_arbitrary_hidden_games", "steps_without_mask_query"]

GENS = ["factory", "noisy_factory", "factory_cheerleader_next", "graph_cycle", "graph_random", "xos", "xs", "oxs",
        "k_budget_generator", "noisy_factory_square", "covg_fn_generator", "graph_internet"]


def size_sums(n, explor, vec):
    out = [0.0] * n
    for m, x in zip(explor, vec):
        out[popcount(m)] += float(x)
    return out


def allowed_sizes(lin, n, explor):
    known = np.array(lin.icg_gym.incomplete_game.are_values_known(), dtype=bool)
    return [any((not known[m]) and popcount(m) == k for m in explor) for k in range(n)]


def observe(ctx, case, lin, n, explor, what, obs=None, check_mask=True) -> None:
    inner = lin.icg_gym
    known = np.array(inner.incomplete_game.are_values_known(), dtype=bool)
    if check_mask:
        mask = np.array(lin.action_masks())
        ctx.count("mask_checks")
        want = allowed_sizes(lin, n, explor)
        if mask.shape != (n,) or [bool(x) for x in mask] != want:
            ctx.violation("mask-not-size-availability", f"{what}: mask {mask.tolist()} expected {want} (n={n}, known={np.nonzero(known)[0].tolist()})", case)
    if obs is not None:
        o = np.array(obs, dtype=np.float64)
        wsum = size_sums(n, explor, np.array(inner.state))
        if o.shape != (n,) or not np.allclose(o, wsum, rtol=1e-12, atol=1e-12):
            ctx.violation("observation-not-per-size-sum", f"{what}: observation {o.tolist()} expected per-size sums {wsum} (n={n})", case)
        s2 = np.array(lin.state, dtype=np.float64)
        if s2.shape != (n,) or not np.allclose(s2, wsum, rtol=1e-12, atol=1e-12):
            ctx.violation("observation-not-per-size-sum", f"{what}: .state {s2.tolist()} expected {wsum} (n={n})", case)


def episode(ctx, case) -> None:
    n = case["n"]
    np.random.seed(case["np_seed"])
    import random as pyrandom
    rng = pyrandom.Random(case["np_seed"])
    try:
        inst = ModelInstance(number_of_players=n, game_class=case["computer"], game_generator=case["generator"],
                             gap_function=case["gap"], seed=case["seed"], run_steps_limit=case["budget"], linear=True)
        if case.get("scale", 1.0) != 1.0 or case.get("offset"):
            from .c09 import Recorder
            inst.game_generator_fn = Recorder(inst.game_generator_fn, case.get("scale", 1.0), case.get("offset", 0.0))
        lin = inst.get_env()
    except Exception as exc:
        ctx.violation("env-construction-raised", f"{type(exc).__name__}: {exc} ({case})", case)
        return
    inner = lin.icg_gym
    explor = gen.explorable(n)
    if lin.observation_space.shape != (n,) or lin.action_space.n != n:
        ctx.violation("spaces-wrong-size", f"observation space {lin.observation_space.shape}, action space {lin.action_space.n} (n={n})", case)
    for ep in range(case["episodes"]):
        try:
            obs, info = lin.reset()
        except Exception as exc:
            ctx.violation("reset-raised", f"{type(exc).__name__}: {exc} ({case['generator']}, n={n})", case)
            return
        ctx.count("resets_checked")
        values = [float(x) for x in inner.full_game.get_values()]
        observe(ctx, case, lin, n, explor, "after reset", obs)
        steps = 0
        ask = not case.get("blind_steps")      # a driver need not query the mask before every step
        while True:
            mask = np.array(lin.action_masks(), dtype=bool) if ask or steps == 0 else np.array(allowed_sizes(lin, n, explor), dtype=bool)
            if not ask:
                ctx.count("steps_without_mask_query")
            if not mask.any() or lin.done:
                ctx.count("episodes_to_done")
                break
            if case.get("direct_inner_steps") and rng.random() < 0.15:
                # the underlying env is used directly in between (it is a public attribute): the wrapper must follow
                im = [int(i) for i in np.nonzero(np.array(inner.action_masks()))[0]]
                a = rng.choice(im)
                inner.step(a)
                if rng.random() < 0.5:
                    inner.unstep(a)
                ctx.count("direct_inner_env_moves")
                observe(ctx, case, lin, n, explor, "after a direct move of the underlying env", lin.state)
                mask = np.array(lin.action_masks(), dtype=bool)
                if not mask.any() or lin.done:
                    ctx.count("episodes_to_done")
                    break
            k = rng.choice([int(i) for i in np.nonzero(mask)[0]])
            if case.get("prefer_size") is not None:
                # drive ONE large size class to exhaustion: the last few coalitions of a big class are where a sampler
                # that guesses positions (rejection sampling, cached index lists) runs out of luck
                if not mask[case["prefer_size"]]:
                    ctx.count("size_classes_exhausted")
                    break
                k = case["prefer_size"]
            before = np.array(inner.incomplete_game.are_values_known(), dtype=bool)
            cands = [m for m in explor if popcount(m) == k and not before[m]]
            try:
                ret = lin.step(k)
            except Exception as exc:
                ctx.violation("step-raised", f"step({k}) raised {type(exc).__name__}: {exc} (known={np.nonzero(before)[0].tolist()}, n={n})", case)
                return
            steps += 1
            ctx.count("steps_checked")
            after = np.array(inner.incomplete_game.are_values_known(), dtype=bool)
            new = [int(m) for m in np.nonzero(after & ~before)[0]]
            lost = [int(m) for m in np.nonzero(before & ~after)[0]]
            c = dict(case)
            c["failed_after_steps"] = steps
            if lost or len(new) != 1 or popcount(new[0]) != k or new[0] not in cands:
                ctx.violation("step-not-one-new-coalition-of-size", f"step({k}): newly known {new}, no longer known {lost}; candidates "
                              f"were {cands} (n={n}, generator={case['generator']})", c)
            elif len(ret) != 5:
                ctx.violation("step-result-shape", f"step returned {len(ret)} values", c)
            else:
                o, reward, done, trunc, info = ret
                if info.get("chosen_coalition") != new[0]:
                    ctx.violation("info-reports-other-coalition", f"step({k}) revealed {new[0]} but info is {info!r}", c)
                if float(reward) != float(inner.reward) or bool(done) != bool(inner.done):
                    ctx.violation("reward-or-done-not-inner", f"step({k}) returned reward {reward!r}, done {done}; inner env has "
                                  f"{inner.reward!r}, {inner.done}", c)
                if float(lin.reward) != float(inner.reward) or bool(lin.done) != bool(inner.done):
                    ctx.violation("reward-or-done-not-inner", "wrapper properties differ from the inner env's", c)
                observe(ctx, c, lin, n, explor, f"after step({k})", o, check_mask=ask)
                ctx.seen("tie_break_picks", f"{k}:{len(cands)}:{cands.index(new[0]) if new[0] in cands else -1}")
            ctx.case((values, np.nonzero(before)[0].tolist(), k), len(cands) >= 2,
                     sample=({"n": n, "generator": case["generator"], "size": k, "candidates": cands, "revealed": new,
                              "observation": np.array(ret[0]).tolist()} if steps == 2 and ep == 0 else None))


def arbitrary_episode(ctx, case) -> None:
    """The wrapper's contract is relative to the underlying env: hidden games of ANY kind (values outside [0,1] after
    normalisation, negative graph weights) must be aggregated the same way.  Several wrappers are built up front and
    played in reverse order (class-level state shared between instances would show)."""
    import random as pyrandom
    from incomplete_cooperative.coalitions import minimal_game_coalitions
    from incomplete_cooperative.game import IncompleteCooperativeGame
    from incomplete_cooperative.icg_gym import ICG_Gym
    from incomplete_cooperative.icg_gym_linear import ICG_Gym_Linear
    from incomplete_cooperative.bounds import BOUNDS
    rng = pyrandom.Random(case["np_seed"])
    np.random.seed(case["np_seed"] % (2**32))
    envs = []
    try:
        for n in case["ns"]:
            vals = [0.0] + [rng.uniform(-3, 5) for _ in range((1 << n) - 1)]
            hidden = IncompleteCooperativeGame(n)
            hidden.set_values(np.array(vals))
            inc = IncompleteCooperativeGame(n, BOUNDS["superadditive_cached"])
            envs.append((n, ICG_Gym_Linear(ICG_Gym(inc, (lambda h=hidden: h.copy()), minimal_game_coalitions(inc), GAP_FUNCTIONS["l1_norm"]))))
        ctx.count("wrappers_alive_together", len(envs))
        for n, lin in reversed(envs):
            explor = gen.explorable(n)
            obs, _ = lin.reset()
            observe(ctx, case, lin, n, explor, "arbitrary game, after reset", obs)
            while True:
                mask = np.array(lin.action_masks(), dtype=bool)
                if not mask.any() or lin.done:
                    break
                k = rng.choice([int(i) for i in np.nonzero(mask)[0]])
                before = np.array(lin.icg_gym.incomplete_game.are_values_known(), dtype=bool)
                cands = [m for m in explor if popcount(m) == k and not before[m]]
                ret = lin.step(k)
                after = np.array(lin.icg_gym.incomplete_game.are_values_known(), dtype=bool)
                new = [int(m) for m in np.nonzero(after & ~before)[0]]
                ctx.count("steps_checked")
                ctx.count("steps_on_arbitrary_hidden_games")
                if len(new) != 1 or new[0] not in cands:
                    ctx.violation("step-not-one-new-coalition-of-size", f"arbitrary game: step({k}) newly known {new}, candidates {cands} (n={n})", case)
                    return
                observe(ctx, case, lin, n, explor, f"arbitrary game, after step({k})", ret[0])
                ctx.case(("arb", case["np_seed"], n, tuple(np.nonzero(before)[0].tolist()), k), len(cands) >= 2)
    except Exception as exc:
        ctx.violation("step-raised", f"arbitrary hidden games / several wrappers alive: {type(exc).__name__}: {exc} (ns={case['ns']})", case)


def run(ctx) -> None:
    rng = ctx.rng
    # guaranteed minimum, independent of the time budget
    arbitrary_episode(ctx, {"kind": "arbitrary", "ns": [4, 3], "np_seed": rng.randint(0, 2**31 - 1)})
    episode(ctx, {"n": 4, "generator": "noisy_factory", "computer": "superadditive_cached", "gap": "l1_norm", "seed": rng.randint(0, 10**6),
                  "np_seed": rng.randint(0, 2**31 - 1), "budget": None, "episodes": 1, "scale": 1.0, "offset": 0.0,
                  "direct_inner_steps": False, "blind_steps": True})
    for n_big, k_big, eps in ((8, 4, 6), (7, 3, 3)):       # 70 coalitions of size 4, 35 of size 3
        episode(ctx, {"n": n_big, "generator": "factory", "computer": "superadditive_cached", "gap": "l1_norm", "seed": rng.randint(0, 10**6),
                      "np_seed": rng.randint(0, 2**31 - 1), "budget": None, "episodes": eps, "scale": 1.0, "offset": 0.0,
                      "direct_inner_steps": False, "blind_steps": True, "prefer_size": k_big})
    i_arb = 0
    while not ctx.out_of_time(1.5):
        i_arb += 1
        if i_arb % 8 == 0:
            ns = [rng.choice([3, 4, 5, 6]) for _ in range(rng.randint(2, 4))]
            arbitrary_episode(ctx, {"kind": "arbitrary", "ns": ns, "np_seed": rng.randint(0, 2**31 - 1)})
            continue
        n = rng.choice([3, 4, 4, 5, 5, 6])
        g = rng.choice(GENS)
        comp = rng.choice(list(sut.SA_COMPUTERS) + (["sam_apx_1"] if g in ("xos", "xs", "oxs", "k_budget_generator", "covg_fn_generator") else []))
        nexp = (1 << n) - n - 2
        episode(ctx, {"n": n, "generator": g, "computer": comp if n <= 5 else "superadditive_cached", "gap": rng.choice(list(GAP_FUNCTIONS)),
                      "seed": rng.randint(0, 10**6), "np_seed": (ctx.seed * 7919 + rng.randint(0, 2**31 - 1)) % (2**32),
                      "budget": rng.choice([None, None, rng.randint(1, nexp)]), "episodes": rng.randint(1, 3),
                      "scale": rng.choice(sut.SCALES), "offset": rng.choice([0.0, 0.0, 0.0, -1e6]),
                      "direct_inner_steps": rng.random() < 0.3, "blind_steps": rng.random() < 0.3})
        ctx.count(f"n{n}_envs")


def replay(ctx, case) -> None:
    if case.get("kind") == "arbitrary":
        arbitrary_episode(ctx, case)
        return
    episode(ctx, {k: v for k, v in case.items() if k != "failed_after_steps"})

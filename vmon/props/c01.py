"""C01 — superadditive bounds always contain the true game.

Monitor: after every compute_bounds() of the real game object (also the intermediate ones of a history) the
table read through the public getters is compared with the hidden superadditive game that supplied the
known values.
"""
from __future__ import annotations

import numpy as np

from .. import boundcore, gen, sut
from ..refmodel import minimal_masks

LEVEL = "exploration"
RULE = ("case = (superadditive game, knowledge set K, computer, operation history reaching K); the real "
        "compute_bounds() runs and every coalition's interval is compared with the hidden game. Games: closure of "
        "random set functions (int, negative int, dyadic/8, 2^-20 grid, convex, additive+surplus: exact ==; float and "
        "near-additive: 64*eps*n*scale). K: all 8 (n=3) / all 1024 (n=4) supersets of the minimal information per "
        "exhaustive game, random densities/chains/levels above; histories fresh, random reveal/un-reveal/bulk-reset/"
        "recompute walks, walks with garbage stale bounds, and the closed walk through every edge of the knowledge "
        "lattice in both directions (n<=4). Distinct = hash of (values, K, computer); non-trivial = some unknown "
        "coalition has lower < upper.")
SHARDS = {"quick": 4, "thorough": 16}
BUDGET = {"quick": 40, "thorough": 420}
REQUIRED = ["observed_computes", "euler_edges", "exhaustive_K_sweeps"]
ASSUMPTIONS = ["hidden games of exact families are superadditive in exact arithmetic (checked by the generator's construction)"]


def observe(ctx, game, case, where: str) -> bool:
    """The C01 oracle on the current table. Returns True if the table is non-degenerate somewhere."""
    values, exact, n = case["values"], case["exact"], case["n"]
    known, lo, up = sut.table(game)
    truth = np.array(values, dtype=np.float64)
    ctx.count("observed_computes")
    scale = float(np.max(np.abs(truth))) if len(truth) else 1.0
    slack = 0.0 if exact else sut.ulp_slack(n, scale)
    bad = None
    if np.any(np.isnan(lo)) or np.any(np.isnan(up)):
        bad = ("nan-bound", f"NaN bound at {np.nonzero(np.isnan(lo) | np.isnan(up))[0][:5].tolist()}")
    elif np.any(known & ((lo != truth) | (up != truth))):
        i = int(np.nonzero(known & ((lo != truth) | (up != truth)))[0][0])
        bad = ("known-interval-not-value", f"known coalition {i}: [{lo[i]!r},{up[i]!r}] value {truth[i]!r}")
    elif np.any(lo > up + slack):
        i = int(np.nonzero(lo > up + slack)[0][0])
        bad = ("lower-above-upper", f"coalition {i}: lower {lo[i]!r} > upper {up[i]!r}")
    elif np.any(truth < lo - slack):
        i = int(np.nonzero(truth < lo - slack)[0][0])
        bad = ("truth-below-lower", f"coalition {i}: truth {truth[i]!r} < lower {lo[i]!r}")
    elif np.any(truth > up + slack):
        i = int(np.nonzero(truth > up + slack)[0][0])
        bad = ("truth-above-upper", f"coalition {i}: truth {truth[i]!r} > upper {up[i]!r}")
    if bad:
        c = dict(case)
        c["where"] = where
        ctx.violation(bad[0], f"{bad[1]} (n={n}, computer={case['computer']}, K={boundcore.known_set_of(game)}, at {where})", c)
    return boundcore.nondegenerate(known, lo, up)


def run_case(ctx, case) -> None:
    n, values = case["n"], case["values"]
    game = sut.object_for_case(ctx, case, case["computer"])
    step = [0]

    def on_compute(g):
        step[0] += 1
        nt = observe(ctx, g, case, f"history compute #{step[0]}")
        ctx.case((values, boundcore.known_set_of(g), case["computer"]), nt)
    try:
        boundcore.apply_ops(game, values, case["ops"], on_compute)
        game.compute_bounds()
    except Exception as exc:
        ctx.violation("computer-raised", f"{type(exc).__name__}: {exc} (n={n}, computer={case['computer']})", case)
        return
    nt = observe(ctx, game, case, "final")
    ctx.case((values, sorted(case["K"]), case["computer"]), nt,
             sample={"n": n, "family": case.get("family"), "computer": case["computer"], "K": sorted(case["K"]),
                     "ops": len(case["ops"]), "values_head": values[:8]})


def euler_case(ctx, n, fam, values, exact, comp, shuffled: bool) -> None:
    walk = gen.euler_walk(n, ctx.rng if shuffled else None)
    ops = [["set_known", sorted(minimal_masks(n))], ["compute"]]
    cur = set()
    for m in walk:
        ops.append(["unreveal" if m in cur else "reveal", m])
        cur ^= {m}
        ops.append(["compute"])
    case = {"n": n, "family": fam, "values": values, "exact": exact, "computer": comp, "K": sorted(minimal_masks(n)),
            "ops": ops, "kind": "euler"}
    before = ctx.counters.get("observed_computes", 0)
    run_case(ctx, case)
    ctx.count("euler_edges", len(walk))
    ctx.count("euler_walks")
    assert ctx.counters.get("observed_computes", 0) - before >= len(walk)


def sweep_case(ctx, n, fam, values, exact, comp) -> None:
    for K in gen.all_knowledge_sets(n):
        run_case(ctx, {"n": n, "family": fam, "values": values, "exact": exact, "computer": comp, "K": K,
                       "ops": [["set_known", K]], "kind": "sweep"})
    ctx.count("exhaustive_K_sweeps")
    ctx.count(f"exhaustive_K_sweeps_n{n}")


def run(ctx) -> None:
    if ctx.tier == "thorough" and ctx.shard == ctx.nshards - 1:
        # the repository's own tests as one more workload for the contracts (vmon/contracts.py)
        from ..contracts_suite import run_repo_tests
        run_repo_tests(ctx, ['incomplete_cooperative/tests/test_bounds.py'], 'compute')
    rng = ctx.rng
    quick = ctx.tier == "quick"
    # 1. exhaustive parts: all K for n = 3, 4 and the all-edges walk, both computers
    fams = list(gen.SA_FAMILIES)
    rng.shuffle(fams)
    for i, fam in enumerate(fams if not quick else fams[:3]):
        for n in (3, 4):
            values, exact = gen.sa_game(rng, n, fam)
            for comp in sut.SA_COMPUTERS:
                if ctx.out_of_time(ctx.budget_s * 0.45):
                    break
                sweep_case(ctx, n, fam, values, exact, comp)
                if n == 3 or comp == "superadditive_cached" or not quick or i == 0:
                    euler_case(ctx, n, fam, values, exact, comp, shuffled=bool(i))
    # 2. random (game, K, history, computer)
    ns = [2, 3, 4, 4, 5, 5, 5, 6, 6, 7]
    for n, fam, values, exact in boundcore.pick_cases(ctx, ns, gen.SA_FAMILIES):
        if ctx.out_of_time(1.0):
            break
        if rng.random() < 0.05:
            # a failing computation (singletons unknown: outside the computers' domain) survived by the caller must not
            # influence the legal ones that follow in this process
            for comp in sut.SA_COMPUTERS:
                g = sut.new_game(n, comp)
                try:
                    sut.set_knowledge(g, values, [0, (1 << n) - 1] + rng.sample(gen.explorable(n), min(2, len(gen.explorable(n)))))
                    g.compute_bounds()
                except Exception:
                    pass
                ctx.count("poison_calls")
        for _ in range(3):
            K = gen.random_knowledge_set(rng, n)
            kind = rng.choice(["fresh", "walk", "walk", "dirty"])
            ops = boundcore.make_history(rng, n, K, kind)
            for comp in sut.SA_COMPUTERS:
                if comp == "superadditive" and n >= 7 and rng.random() < 0.7:
                    continue
                run_case(ctx, {"n": n, "family": fam, "values": values, "exact": exact, "computer": comp, "K": K,
                               "ops": ops, "kind": kind})
                ctx.count(f"history_{kind}")
                ctx.count(f"n{n}")
    if not ctx.out_of_time(-6.0):
        # beyond 8 players coalition ids leave the 8-bit range: one case per shard with each computer
        nb = rng.choice([8, 9])
        vb, eb = gen.sa_game(rng, nb, rng.choice(["int", "int_neg", "dyadic8"]))
        Kb = gen.random_knowledge_set(rng, nb)
        for comp in (sut.SA_COMPUTERS if nb == 8 or not quick else ["superadditive_cached"]):
            run_case(ctx, {"n": nb, "family": "big_n", "values": vb, "exact": eb, "computer": comp, "K": Kb,
                           "ops": [["set_known", Kb]], "kind": "fresh"})
            ctx.count(f"n{nb}")
    # 7 players with the cached computer, a few, also in quick
    if quick and not ctx.out_of_time(-3.0):
        values, exact = gen.sa_game(rng, 7, "int")
        K = gen.random_knowledge_set(rng, 7)
        run_case(ctx, {"n": 7, "family": "int", "values": values, "exact": exact, "computer": "superadditive_cached",
                       "K": K, "ops": [["set_known", K]], "kind": "fresh"})
        ctx.count("n7")


def replay(ctx, case) -> None:
    if case.get("kind") == "repo-tests":
        from ..contracts_suite import run_repo_tests
        run_repo_tests(ctx, case["files"], case["contracts"])
        return
    run_case(ctx, case)

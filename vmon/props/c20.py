"""C20 — saving results is all-or-nothing under a crash.

Monitor: fault enumeration.  The workload is the set of crash points inside a save; each one is executed for real
(forked child killed / interrupted at a Python line event; fresh interpreter killed or failed at a system call by
strace) and the parent inspects the bytes of data.json afterwards, then performs an ordinary follow-up save.
"""
from __future__ import annotations

import json
import os
import shutil
import subprocess
import tempfile
from argparse import Namespace
from pathlib import Path

import numpy as np

from incomplete_cooperative.run.save import Output, json_serializer, save, save_json

from .. import env as venv
from .. import failpoints as fp
from ..evidence import case_hash

LEVEL = "fault_enumeration"
RULE = ("case = one crash point inside a save: (file history with 0/1/3/10 earlier runs) x (result 1x3, 12x40, 60x50: up to ~15 buffer flushes) x "
        "(new name / existing name) x (death by SIGKILL / KeyboardInterrupt) at the k-th Python line event of the save "
        "(sys.monitoring LINE in a forked child). Enumerated per scenario: the first and last occurrence of EVERY "
        "distinct source line executed during the save (the pure-computation lines inside json/encoder.py, decoder.py, scanner.py excluded: they perform no I/O and are observationally equivalent to the adjacent lines of json.dump's write loop), every event adjacent to a change of the directory's on-disk "
        "state (each flush, create, rename), and a stratified sample of the rest; plus system-call-level injection "
        "under strace -P <results file and its siblings>: SIGKILL on entry of the k-th openat/write/close/rename/... and "
        "error returns (ENOSPC, EIO, EACCES) of the k-th write/close/rename; plus save() end to end. Oracle (parent side, "
        "after the child is gone): data.json is byte-identical to the previous file (absent if there was none) or parses "
        "to exactly the old entries unchanged + the complete new entry; a follow-up save_json of a fresh name then "
        "succeeds and keeps everything. Left-over temporary files are allowed. Distinct = (scenario, mode, k); "
        "non-trivial = the child really died / was interrupted there (wait status checked).")
SHARDS = {"quick": 4, "thorough": 16}
BUDGET = {"quick": 40, "thorough": 420}
REQUIRED = ["crash_points_line_level", "kill_points", "interrupt_points", "follow_up_saves", "state_change_neighbourhood_points",
            "source_lines_hit", "syscall_injections"]

SIZES = {"small": (1, 3), "medium": (12, 40), "large": (60, 50)}


def make_output(seed: int, size: str) -> Output:
    rng = np.random.default_rng(seed)
    r, c = SIZES[size]
    data = rng.random((r + 1, c))
    data[rng.integers(0, r + 1), rng.integers(0, c)] = np.nan
    actions = rng.integers(3, 31, (r, c)).astype(float)
    return Output(data, actions, Namespace(func=make_output, seed=seed, solver="greedy", model_dir=Path("/x/y"), number_of_players=5))


def entry_json(out: Output):
    return json.loads(json.dumps(out.json, default=json_serializer))


def prepare_template(base: Path, history: int, size: str, seed: int) -> tuple[Path, bytes | None]:
    t = base / "template"
    t.mkdir(parents=True)
    for i in range(history):
        save_json(t / "data.json", f"old{i}", make_output(seed + 100 + i, size if i == 0 else "small"))
    old = (t / "data.json").read_bytes() if history else None
    return t, old


def verdict(ctx, case, workdir: Path, old: bytes | None, name: str, new_entry, existing: bool) -> str | None:
    """Post-mortem on data.json. Returns a state label, or None after reporting a violation."""
    p = workdir / "data.json"
    if not p.exists():
        if old is None:
            return "absent"
        ctx.violation("file-vanished-after-crash", f"data.json is gone after the crash ({describe(case)})", case)
        return None
    b = p.read_bytes()
    if old is not None and b == old:
        return "old"
    try:
        parsed = json.loads(b)
    except Exception as exc:
        lost = len(json.loads(old)) if old else 0
        ctx.violation("file-unparseable-after-crash", f"data.json ({len(b)} bytes) does not parse after the crash: {str(exc)[:80]}; "
                      f"{lost} earlier runs lost ({describe(case)})", case)
        return None
    oldp = json.loads(old) if old else {}
    for k, v in oldp.items():
        if k not in parsed or parsed[k] != v:
            ctx.violation("earlier-runs-lost-after-crash", f"entry {k!r} missing or changed after the crash ({describe(case)})", case)
            return None
    extra = set(parsed) - set(oldp)
    if existing and extra:
        ctx.violation("existing-name-save-changed-file", f"unexpected entries {sorted(extra)} ({describe(case)})", case)
        return None
    if not extra:
        return "old-equivalent"
    if extra != {name} or parsed[name] != new_entry:
        ctx.violation("partial-new-entry-after-crash", f"new entry incomplete or wrong after the crash ({describe(case)})", case)
        return None
    return "new"


def describe(case) -> str:
    return (f"history={case['history']}, size={case['size']}, existing_name={case['existing']}, mode={case.get('mode')}, "
            f"k={case.get('k')}, via={case.get('via', 'line')}" + (f", site={case['site']}" if case.get("site") else ""))


def follow_up(ctx, case, workdir: Path, state: str, old: bytes | None, name: str) -> None:
    """An ordinary save after the crash must succeed and keep everything."""
    p = workdir / "data.json"
    before = json.loads(p.read_bytes()) if p.exists() else {}
    out2 = make_output(999, "small")
    try:
        save_json(p, "after-crash", out2)
        after = json.loads(p.read_bytes())
    except Exception as exc:
        ctx.violation("next-save-fails-after-crash", f"follow-up save_json raised {type(exc).__name__}: {exc} ({describe(case)})", case)
        return
    ctx.count("follow_up_saves")
    if any(k not in after or after[k] != v for k, v in before.items()) or after.get("after-crash") != entry_json(out2):
        ctx.violation("next-save-loses-runs", f"follow-up save lost or damaged entries ({describe(case)})", case)


def line_level_scenario(ctx, sc: dict, budget_s: float, dense: bool) -> None:
    base = Path(tempfile.mkdtemp(prefix="vmon-c20-", dir="/dev/shm" if os.path.isdir("/dev/shm") else None))
    try:
        template, old = prepare_template(base, sc["history"], sc["size"], sc["seed"])
        name = "old0" if sc["existing"] else "new-run"
        out = make_output(sc["seed"], sc["size"])
        new_entry = entry_json(out)
        work = base / "work"

        def reset_work():
            shutil.rmtree(work, ignore_errors=True)
            shutil.copytree(template, work)

        def action():
            if sc.get("e2e"):
                save(work, name, out)
            else:
                save_json(work / "data.json", name, out)
        reset_work()
        info = fp.count_events(action, str(work), str(base / "count.pkl"))
        if info is None:
            ctx.mark_inconclusive(f"counting run failed for scenario {sc}")
            return
        K, sites, table, changes = info["K"], info["sites"], info["table"], info["changes"]
        ctx.count("counting_runs")
        ctx.count("line_events_in_counting_runs", K)
        # clean completion must give the new file
        st = verdict(ctx, dict(sc, mode="none", k=-1), work, old, name, new_entry, sc["existing"])
        if st not in ("new", "old", "old-equivalent") or (st != "new" and not sc["existing"]):
            ctx.violation("clean-save-wrong", f"an uninterrupted save left state {st} ({describe(sc)})", dict(sc, mode="none", k=-1))
        # choose crash points
        first, last = {}, {}
        for i, s in enumerate(sites):
            first.setdefault(s, i)
            last[s] = i
        pts: dict[int, str] = {}
        for c in changes:
            for k in (c - 1, c, c + 1):
                if 0 <= k < K:
                    pts[k] = "state-change"
        for s, i in first.items():
            pts.setdefault(i, "first-of-line")
        for s, i in last.items():
            pts.setdefault(i, "last-of-line")
        for k in (0, 1, K - 2, K - 1):
            if 0 <= k < K:
                pts.setdefault(k, "edge")
        stride = max(1, K // (2000 if dense else 150))
        for k in range(ctx.rng.randrange(stride), K, stride):
            pts.setdefault(k, "stratified")
        order = sorted(pts)
        # priority: state changes and repository lines first, then the rest
        repo = str(venv.REPO)
        prio = [k for k in order if pts[k] == "state-change" or table[sites[k]][0].startswith(repo)]
        rest = [k for k in order if k not in set(prio)]
        ctx.rng.shuffle(rest)
        plan = [(k, m) for k in prio for m in ("kill", "interrupt")] + \
               [(k, m) for k in rest for m in (("kill", "interrupt") if dense else (ctx.rng.choice(["kill", "interrupt"]),))]
        if sc.get("only") is not None:
            plan = [tuple(sc["only"])]
        t_end = ctx.elapsed() + budget_s
        for k, mode in plan:
            if ctx.elapsed() > t_end:
                ctx.count("planned_points_skipped_for_time", 1)
                continue
            reset_work()
            file, line = table[sites[k]]
            case = dict(sc, mode=mode, k=k, K=K, site=f"{os.path.basename(file)}:{line}", via="line")
            res = fp.crash_at(action, k, mode)
            if res == "timeout" or res.startswith("error"):
                ctx.count(f"child_{res.replace(':', '_')}")
                continue
            ctx.count("crash_points_line_level")
            reached = res in ("killed", "interrupted")
            if res == "killed":
                ctx.count("kill_points")
            elif res == "interrupted":
                ctx.count("interrupt_points")
            else:
                ctx.count("crash_point_not_reached")
            if pts[k] == "state-change":
                ctx.count("state_change_neighbourhood_points")
            ctx.seen("source_lines_hit", f"{file}:{line}")
            if table[sites[k]][0].startswith(repo):
                ctx.seen("repository_lines_hit", f"{file}:{line}")
            st = verdict(ctx, case, work, old, name, new_entry, sc["existing"])
            if st is not None:
                ctx.seen("post_crash_states", f"{case_hash((sc['history'], sc['size'], sc['existing']))}:{st}")
                leftovers = sorted(x for x in os.listdir(work) if x != "data.json")
                if leftovers:
                    ctx.count("crashes_leaving_temporary_files")
                follow_up(ctx, case, work, st, old, name)
            ctx.case((sc["history"], sc["size"], sc["existing"], sc.get("e2e", False), mode, k), reached,
                     sample=({"scenario": {k2: sc[k2] for k2 in ("history", "size", "existing")}, "mode": mode, "k": k, "K": K,
                              "line": f"{os.path.basename(file)}:{line}", "why": pts[k], "child": res, "state_after": st}
                             if pts[k] == "state-change" and mode == "kill" else None))
    finally:
        shutil.rmtree(base, ignore_errors=True)


STRACE_CHILD = r"""
import sys, json
from pathlib import Path
sys.path.insert(0, {root!r})
from vmon.props.c20 import make_output
from incomplete_cooperative.run.save import save_json
save_json(Path({work!r}) / "data.json", {name!r}, make_output({seed}, {size!r}))
"""


def strace_scenario(ctx, sc: dict, max_runs: int, parallel: int) -> None:
    if shutil.which("strace") is None:
        ctx.count("strace_unavailable")
        return
    base = Path(tempfile.mkdtemp(prefix="vmon-c20s-", dir="/dev/shm" if os.path.isdir("/dev/shm") else None))
    try:
        template, old = prepare_template(base, sc["history"], sc["size"], sc["seed"])
        name = "old0" if sc["existing"] else "new-run"
        new_entry = entry_json(make_output(sc["seed"], sc["size"]))
        env = venv.child_env()

        def workdir(i):
            w = base / f"w{i}"
            shutil.rmtree(w, ignore_errors=True)
            shutil.copytree(template, w)
            return w

        def cmd_for(w):
            return [venv.PYTHON, "-c", STRACE_CHILD.format(root=str(venv.ROOT), work=str(w), name=name, seed=sc["seed"], size=sc["size"])]

        def paths_for(w):
            return [str(w / "data.json"), str(w / "data.json.tmp"), str(w)]
        w0 = workdir("count")
        rc, calls = fp.strace_count(cmd_for(w0), paths_for(w0), env, str(base / "count.log"))
        if rc != 0:
            ctx.mark_inconclusive(f"strace counting run exited {rc}")
            return
        ctx.count("strace_counting_runs")
        counts: dict[str, int] = {}
        for c in calls:
            counts[c] = counts.get(c, 0) + 1
        ctx.seen("syscalls_on_results_file", ",".join(f"{k}x{v}" for k, v in sorted(counts.items())))
        plan = []
        for call, cnt in counts.items():
            if call in ("openat", "open", "write", "close", "rename", "renameat", "renameat2", "fsync", "fdatasync", "unlink",
                        "unlinkat", "ftruncate", "lseek", "read", "newfstatat", "fstat"):
                ks = list(range(1, cnt + 1))
                if len(ks) > 12:
                    ks = ks[:4] + ks[-4:] + ctx.rng.sample(ks[4:-4], 4)
                plan += [(call, k, "signal=SIGKILL") for k in ks]
                if call == "write":
                    plan += [(call, k, "error=ENOSPC") for k in ks[:3] + ks[-2:]]
                elif call == "close":
                    plan += [(call, k, "error=EIO") for k in ks[-2:]]
                elif call in ("rename", "renameat", "renameat2"):
                    plan += [(call, k, "error=EACCES") for k in ks]
                elif call in ("openat", "open"):
                    plan += [(call, k, "error=EMFILE") for k in ks[-2:]]
        ctx.rng.shuffle(plan)
        must = [p for p in plan if p[0] in ("rename", "renameat", "renameat2", "close") or (p[0] == "write" and "SIGKILL" in p[2])]
        plan = (must + [p for p in plan if p not in must])[:max_runs]
        for i in range(0, len(plan), parallel):
            batch = []
            for j, (call, k, fault) in enumerate(plan[i:i + parallel]):
                w = workdir(j)
                batch.append((call, k, fault, w, fp.strace_inject(cmd_for(w), paths_for(w), env, call, k, fault, str(base / f"inj{j}.log"))))
            for call, k, fault, w, proc in batch:
                try:
                    rc = proc.wait(timeout=300)
                except subprocess.TimeoutExpired:
                    proc.kill()
                    ctx.count("strace_timeouts")
                    continue
                case = dict(sc, mode=fault, k=k, site=call, via="strace")
                ctx.count("syscall_injections")
                ctx.count("syscall_kill_injections" if "SIGKILL" in fault else "syscall_error_injections")
                died = rc != 0
                if died:
                    ctx.count("syscall_injections_that_stopped_the_save")
                st = verdict(ctx, case, w, old, name, new_entry, sc["existing"])
                if st is not None:
                    ctx.seen("post_crash_states", f"strace:{case_hash((sc['history'], sc['size'], sc['existing']))}:{st}")
                    follow_up(ctx, case, w, st, old, name)
                ctx.case(("strace", sc["history"], sc["size"], sc["existing"], call, k, fault), died,
                         sample=({"via": "strace", "inject": f"{call}:{fault}:when={k}", "exit": rc, "state_after": st,
                                  "syscalls_on_file": counts} if call in ("rename", "write") else None))
    finally:
        shutil.rmtree(base, ignore_errors=True)


def run(ctx) -> None:
    rng = ctx.rng
    quick = ctx.tier == "quick"
    scenarios = [{"history": h, "size": s, "existing": e} for h in (0, 1, 3, 10) for s in ("small", "medium", "large")
                 for e in (False, True) if not (e and h == 0)]
    rng.shuffle(scenarios)
    # quick: each shard takes a few scenarios, always including a medium/large new-name one with history
    mine = [sc for i, sc in enumerate(scenarios) if i % ctx.nshards == ctx.shard]
    mine.sort(key=lambda sc: (sc["existing"], sc["size"] == "small"))
    if quick:
        mine = mine[:3]
    strace_budget = 12.0 if quick else 90.0
    per = max(5.0, (ctx.budget_s - strace_budget - 6.0) / max(1, len(mine)))
    for sc in mine:
        sc = dict(sc, seed=rng.randint(0, 10**6))
        line_level_scenario(ctx, sc, per if not sc["existing"] else per * 0.4, dense=not quick)
    if (ctx.shard % 4 == 0) and not ctx.out_of_time(strace_budget + 5):
        line_level_scenario(ctx, {"history": 1, "size": "small", "existing": False, "seed": rng.randint(0, 10**6), "e2e": True},
                            6.0 if quick else 40.0, dense=False)
        ctx.count("save_end_to_end_scenarios")
    sc = dict(rng.choice([s for s in scenarios if not s["existing"] and s["size"] != "small"]), seed=rng.randint(0, 10**6))
    strace_scenario(ctx, sc, max_runs=8 if quick else 60, parallel=8 if quick else 2)


def replay(ctx, case) -> None:
    sc = {k: case[k] for k in ("history", "size", "existing", "seed") if k in case}
    if case.get("e2e"):
        sc["e2e"] = True
    if case.get("via") == "strace":
        strace_scenario(ctx, sc, max_runs=60, parallel=2)
    else:
        if case.get("k", -1) >= 0 and case.get("mode") in ("kill", "interrupt"):
            sc["only"] = [case["k"], case["mode"]]
        line_level_scenario(ctx, sc, 300.0, dense=False)

"""C03 — cached and reference superadditive bound computers are interchangeable.

Monitor: two real game objects are fed identical knowledge (through identical operation histories), one per
computer, inside ONE interpreter in which jobs for different player counts interleave; tables are compared after
every computation, and the memoised coalition structure is fingerprinted before/after every job.
"""
from __future__ import annotations

import hashlib

import numpy as np

from incomplete_cooperative import bounds as repo_bounds

from .. import boundcore, gen, sut
from ..refmodel import minimal_masks

LEVEL = "exploration"
RULE = ("case = (n in 2..8, game, knowledge set K containing the minimal information, history, repeat count) run on "
        "two real game objects, one per computer name looked up in the BOUNDS registry (and through "
        "ModelInstance(game_class=name).get_env() for env jobs); jobs with different n interleave randomly in one "
        "interpreter; tables compared bit-for-bit on exact families (and on arbitrary non-superadditive integer "
        "games), within 64*eps*n*scale on float families, after each of 1-3 repeated computes; the functools.cache "
        "entries of every n are fingerprinted (sha256 of the arrays) and must never change once created. Distinct = "
        "hash(values, K); non-trivial = some unknown coalition exists and tables are non-degenerate; 'interleaved' "
        "counts jobs whose predecessor had a different n.")
SHARDS = {"quick": 4, "thorough": 16}
BUDGET = {"quick": 40, "thorough": 420}
REQUIRED = ["pairs_compared", "interleaved_jobs", "cache_fingerprint_checks", "registry_env_jobs"]

_fingerprints: dict[int, str] = {}


def cache_fingerprint(n: int) -> str:
    arrs = repo_bounds._get_sub_super_coalition_structure(n)
    h = hashlib.sha256()
    for a in arrs:
        h.update(np.ascontiguousarray(a).tobytes())
    return h.hexdigest()


def check_cache(ctx, case) -> None:
    for n in list(_fingerprints):
        ctx.count("cache_fingerprint_checks")
        if cache_fingerprint(n) != _fingerprints[n]:
            ctx.violation("cache-entry-mutated", f"memoised coalition structure for n={n} changed after a job with "
                          f"n={case['n']}", case)
            _fingerprints[n] = cache_fingerprint(n)


def compare(ctx, case, ga, gb, where: str) -> bool:
    ka, la, ua = sut.table(ga)
    kb, lb, ub = sut.table(gb)
    ctx.count("pairs_compared")
    n = case["n"]
    exact = case["exact"]
    if exact:
        same = (ka.tobytes() == kb.tobytes()) and np.array_equal(la, lb, equal_nan=True) and np.array_equal(ua, ub, equal_nan=True)
    else:
        scale = float(np.max(np.abs(np.array(case["values"]))))
        slack = sut.ulp_slack(n, scale)
        same = (ka.tobytes() == kb.tobytes()) and np.allclose(la, lb, rtol=0, atol=slack, equal_nan=True) \
            and np.allclose(ua, ub, rtol=0, atol=slack, equal_nan=True)
        if la.tobytes() == lb.tobytes() and ua.tobytes() == ub.tobytes():
            ctx.count("float_pairs_bit_identical")
    if not same:
        dl = np.nonzero(~np.isclose(la, lb, rtol=0, atol=0, equal_nan=True))[0]
        du = np.nonzero(~np.isclose(ua, ub, rtol=0, atol=0, equal_nan=True))[0]
        which = "lower" if len(dl) else "upper"
        i = int((dl if len(dl) else du)[0]) if (len(dl) or len(du)) else -1
        ctx.violation(f"computers-disagree-{which}",
                      f"{where}: coalition {i}: superadditive=[{la[i]!r},{ua[i]!r}] cached=[{lb[i]!r},{ub[i]!r}] "
                      f"(n={n}, K={boundcore.known_set_of(ga)})", case)
    return boundcore.nondegenerate(ka, la, ua)


def run_case(ctx, case) -> None:
    n, values = case["n"], case["values"]
    ga = sut.object_for_case(ctx, case, "superadditive", p_reuse=1.0 if case.get("_reuse") else 0.0)
    gb = sut.object_for_case(ctx, case, "superadditive_cached", p_reuse=1.0 if case.get("_reuse") else 0.0)
    try:
        step = [0]
        # identical histories on both objects; compare at every intermediate compute as well
        tables_a: list = []

        def rec_a(g):
            tables_a.append(sut.table(g))
        boundcore.apply_ops(ga, values, case["ops"], rec_a)

        def cmp_b(g):
            ka, la, ua = tables_a[step[0]]
            kb, lb, ub = sut.table(g)
            step[0] += 1
            ctx.count("pairs_compared")
            ok = ka.tobytes() == kb.tobytes() and (
                (np.array_equal(la, lb, equal_nan=True) and np.array_equal(ua, ub, equal_nan=True)) if case["exact"] else
                (np.allclose(la, lb, rtol=1e-12, atol=1e-12, equal_nan=True) and np.allclose(ua, ub, rtol=1e-12, atol=1e-12, equal_nan=True)))
            if not ok:
                ctx.violation("computers-disagree-mid-history", f"intermediate compute #{step[0]} differs (n={n})", case)
        boundcore.apply_ops(gb, values, case["ops"], cmp_b)
        nt = False
        for r in range(case["repeats"]):
            ga.compute_bounds()
            gb.compute_bounds()
            nt = compare(ctx, case, ga, gb, f"after compute #{r + 1}") or nt
    except Exception as exc:
        ctx.violation("computer-raised", f"{type(exc).__name__}: {exc} (n={n})", case)
        return
    if n not in _fingerprints:
        _fingerprints[n] = cache_fingerprint(n)
    check_cache(ctx, case)
    ctx.case((values, sorted(case["K"])), nt,
             sample={"n": n, "family": case["family"], "K": sorted(case["K"]), "repeats": case["repeats"],
                     "ops": len(case["ops"]), "values_head": values[:8]})


def env_job(ctx, n: int, gen_name: str, seed: int) -> None:
    """Same seed, same actions, two envs built the way the CLI builds them; tables must agree after every step."""
    from incomplete_cooperative.run.model import ModelInstance
    envs = [ModelInstance(number_of_players=n, game_class=name, game_generator=gen_name, seed=seed).get_env()
            for name in sut.SA_COMPUTERS]
    rng = ctx.rng
    case = {"n": n, "family": gen_name, "values": envs[0].full_game.get_values().tolist(), "exact": False,
            "K": sorted(minimal_masks(n)), "ops": [], "repeats": 1, "kind": "env", "seed": seed}
    if not np.array_equal(envs[0].full_game.get_values(), envs[1].full_game.get_values()):
        ctx.count("env_jobs_skipped_unseeded_generator")
        return
    compare(ctx, case, envs[0].incomplete_game, envs[1].incomplete_game, "after reset")
    while True:
        mask = envs[0].action_masks()
        if not mask.any() or envs[0].done:
            break
        a = int(rng.choice(np.nonzero(mask)[0].tolist()))
        ra = envs[0].step(a)
        rb = envs[1].step(a)
        nt = compare(ctx, case, envs[0].incomplete_game, envs[1].incomplete_game, f"after env.step({a})")
        if abs(float(ra[1]) - float(rb[1])) > 1e-9 * max(1.0, abs(float(ra[1]))):
            ctx.violation("computers-disagree-reward", f"rewards {ra[1]!r} vs {rb[1]!r} after step {a} (n={n}, generator={gen_name})", case)
        ctx.case((case["values"], boundcore.known_set_of(envs[0].incomplete_game)), nt)
    ctx.count("registry_env_jobs")


def run(ctx) -> None:
    rng = ctx.rng
    quick = ctx.tier == "quick"
    last_n = None
    fams = list(gen.SA_FAMILIES) + ["arbitrary_int", "arbitrary_float"]
    ns = [2, 3, 3, 4, 4, 5, 5, 6, 6, 7] + ([8] if not quick or ctx.shard == 0 else []) + ([9] if not quick and ctx.shard % 4 == 1 else [])
    jobs = 0
    while jobs < 12 or not ctx.out_of_time(6.0):        # a guaranteed minimum of jobs, then as many as the budget allows
        n = rng.choice(ns) if jobs >= 12 else [3, 4, 5, 4, 3, 6][jobs % 6]
        fam = rng.choice(fams)
        if fam == "arbitrary_int":
            values, exact = [0.0] + [float(rng.randint(-9, 9)) for _ in range((1 << n) - 1)], True
        elif fam == "arbitrary_float":
            values, exact = [0.0] + [rng.uniform(-5, 5) for _ in range((1 << n) - 1)], False
        else:
            values, exact = gen.sa_game(rng, n, fam)
        if rng.random() < 0.04:
            boundcore.poison(ctx, n, sut.SA_COMPUTERS)
        if rng.random() < 0.15:
            k2 = rng.choice([-40, -20, 20, 40])
            values = [v * 2.0 ** k2 for v in values]
        K = gen.random_knowledge_set(rng, n)
        kind = rng.choice(["fresh", "fresh", "walk", "dirty"]) if n <= 6 else "fresh"
        ops = boundcore.make_history(rng, n, K, kind)
        run_case(ctx, {"n": n, "family": fam, "values": values, "exact": exact, "K": K, "ops": ops,
                       "repeats": rng.randint(1, 3), "kind": kind, "_reuse": rng.random() < 0.5})
        ctx.count(f"n{n}")
        if last_n is not None and last_n != n:
            ctx.count("interleaved_jobs")
        last_n = n
        jobs += 1
    # registry path through ModelInstance (imports torch: a few seconds), interleaved n as well
    for n, g in ((3, "factory"), (4, "noisy_factory"), (5, "factory_cheerleader_next"), (4, "graph_cycle"), (3, "xos"),
                 (4, "graph_random"), (5, "noisy_factory_square")):
        if ctx.out_of_time(-8.0):
            break
        env_job(ctx, n, g, rng.randint(0, 10**6))
        check_cache(ctx, {"n": n})


def replay(ctx, case) -> None:
    if case.get("kind") == "env":
        env_job(ctx, case["n"], case["family"], case["seed"])
    else:
        run_case(ctx, case)

"""C02 — superadditive bounds are tight.

Monitor: the table left by the real compute_bounds() is compared (a) with the exact-rational optimum
(best partition / min over known supersets), whose optimality is certified per instance by explicit attaining
completions, and (b) with the optimum of the LP over the polytope of superadditive completions (HiGHS).
"""
from __future__ import annotations

from fractions import Fraction

import numpy as np

from .. import boundcore, gen, sut
from ..refmodel import (certificate_lower_is_completion, certificate_upper_attained, popcount, proper_submasks,
                        ref_bounds)

LEVEL = "exploration"
RULE = ("case = (superadditive game, knowledge set K, computer); after the real compute_bounds() every coalition's "
        "lower/upper bound is compared with the exact rational optimum (== on exact families, 64*eps*n*scale otherwise); "
        "on exact families the optimum is certified by explicit superadditive completions attaining it (lower game; "
        "closure of K+{S->upper(S)} per unknown S); for n<=5 (thorough: some n=6) additionally with min/max of x_S "
        "over the LP polytope of superadditive completions (HiGHS, 1e-7) whose optimal vertex is re-checked. K: all "
        "supersets of the minimal information for n=3,4 per exhaustive game, random above. Distinct = hash(values, K, "
        "computer); non-trivial = some unknown coalition has lower < upper.")
SHARDS = {"quick": 4, "thorough": 16}
BUDGET = {"quick": 40, "thorough": 420}
REQUIRED = ["ref_comparisons", "certificates_checked", "lp_optima_compared", "exhaustive_K_sweeps"]

_lp_cache: dict = {}


def lp_structure(n: int):
    """Constraint rows x_A + x_B - x_{A|B} <= 0 for all disjoint non-empty A, B (each unordered pair once)."""
    if n in _lp_cache:
        return _lp_cache[n]
    rows = []
    size = 1 << n
    for u in range(1, size):
        lowbit = u & -u
        for a in proper_submasks(u):
            if a & lowbit:
                r = np.zeros(size)
                r[a] += 1
                r[u ^ a] += 1
                r[u] -= 1
                rows.append(r)
    A = np.array(rows)
    _lp_cache[n] = A
    return A


def lp_extremes(n: int, values, K, targets):
    """min and max of x_S over superadditive x agreeing with values on K, for each S in targets."""
    from scipy.optimize import linprog
    A = lp_structure(n)
    size = 1 << n
    Kset = set(K)
    bounds = [(values[m], values[m]) if m in Kset else (None, None) for m in range(size)]
    out = {}
    for s in targets:
        res = []
        for sign in (1.0, -1.0):
            c = np.zeros(size)
            c[s] = sign
            r = linprog(c, A_ub=A, b_ub=np.zeros(len(A)), bounds=bounds, method="highs")
            if r.status != 0:
                res.append(None)
            else:
                x = r.x
                feas = float(np.max(A @ x)) if len(A) else 0.0
                res.append((float(x[s]), feas))
        out[s] = res
    return out


def run_case(ctx, case, do_cert: bool, do_lp: bool) -> None:
    n, values, exact, K, comp = case["n"], case["values"], case["exact"], case["K"], case["computer"]
    game = sut.object_for_case(ctx, case, comp)
    try:
        if case.get("ops"):
            boundcore.apply_ops(game, values, case["ops"])      # reach K through a history (tightness must not depend on it)
            ctx.count("cases_reached_through_a_history")
        else:
            sut.set_knowledge(game, values, K)
        game.compute_bounds()
    except Exception as exc:
        ctx.violation("computer-raised", f"{type(exc).__name__}: {exc} (n={n}, computer={comp}, K={K})", case)
        return
    known, lo, up = sut.table(game)
    kd = sut.known_dict(values, K)
    rlo, rup = ref_bounds(n, kd)
    scale = float(np.max(np.abs(np.array(values))))
    slack = 0.0 if exact else sut.ulp_slack(n, scale)
    ctx.count("ref_comparisons", 2 * (1 << n))
    for s in range(1 << n):
        for name, got, want in (("lower", lo[s], rlo[s]), ("upper", up[s], rup[s])):
            w = float(want)
            ok = (Fraction(float(got)) == want) if exact and not np.isnan(got) else (abs(float(got) - w) <= slack)
            if not ok:
                rel = "below" if got < w else "above"
                ctx.violation(f"{name}-{rel}-optimum",
                              f"coalition {s}: computed {name} {got!r}, extreme over superadditive completions {w!r} "
                              f"(n={n}, computer={comp}, K={sorted(K)})", case)
                break
    if do_cert and exact:
        err = certificate_lower_is_completion(n, kd, rlo)
        if err:
            ctx.mark_inconclusive(f"reference certificate failed (harness): {err}")
        unknown = [s for s in range(1 << n) if s not in kd]
        if len(unknown) > 12:
            unknown = ctx.rng.sample(unknown, 12)
        for s in unknown:
            err = certificate_upper_attained(n, kd, s, rup[s])
            ctx.count("certificates_checked")
            if err:
                ctx.mark_inconclusive(f"reference certificate failed (harness): {err}")
        ctx.count("certificates_checked")
    if do_lp:
        unknown = [s for s in range(1 << n) if s not in kd]
        if len(unknown) > 6:
            unknown = ctx.rng.sample(unknown, 6)
        ext = lp_extremes(n, values, K, unknown)
        tol = 1e-7 * max(1.0, scale)
        for s, (mn, mx) in ext.items():
            if mn is None or mx is None:
                ctx.count("lp_failed")
                continue
            ctx.count("lp_optima_compared", 2)
            if mn[1] > tol or mx[1] > tol:
                ctx.count("lp_vertex_infeasible")
                continue
            if abs(mn[0] - lo[s]) > tol:
                ctx.violation("lower-differs-from-lp-minimum" if lo[s] > mn[0] else "lower-below-lp-minimum",
                              f"coalition {s}: computed lower {lo[s]!r}, LP minimum over completions {mn[0]!r} "
                              f"(n={n}, computer={comp}, K={sorted(K)})", case)
            if abs(mx[0] - up[s]) > tol:
                ctx.violation("upper-differs-from-lp-maximum",
                              f"coalition {s}: computed upper {up[s]!r}, LP maximum over completions {mx[0]!r} "
                              f"(n={n}, computer={comp}, K={sorted(K)})", case)
    ctx.case((values, sorted(K), comp), boundcore.nondegenerate(known, lo, up),
             sample={"n": n, "family": case.get("family"), "computer": comp, "K": sorted(K),
                     "lower": lo.tolist()[:8], "upper": up.tolist()[:8], "ref_lower": [float(x) for x in rlo[:8]]})


def run(ctx) -> None:
    rng = ctx.rng
    quick = ctx.tier == "quick"
    fams = list(gen.SA_FAMILIES)
    rng.shuffle(fams)
    for i, fam in enumerate(fams[:2] if quick else fams):
        for n in (3, 4):
            values, exact = gen.sa_game(rng, n, fam)
            for comp in sut.SA_COMPUTERS:
                if ctx.out_of_time(ctx.budget_s * 0.5):
                    break
                for j, K in enumerate(gen.all_knowledge_sets(n)):
                    run_case(ctx, {"n": n, "family": fam, "values": values, "exact": exact, "computer": comp, "K": K},
                             do_cert=(j % 8 == 0 or n == 3), do_lp=(j % 64 == ctx.shard or (n == 3 and j % 2 == 0)))
                ctx.count("exhaustive_K_sweeps")
                ctx.count(f"exhaustive_K_sweeps_n{n}")
    ns = [2, 3, 4, 5, 5, 6, 6, 7]
    big = 0
    for n, fam, values, exact in boundcore.pick_cases(ctx, ns, gen.SA_FAMILIES):
        if ctx.out_of_time(1.0):
            break
        if rng.random() < 0.05:
            boundcore.poison(ctx, n, sut.SA_COMPUTERS)
        if big < (1 if quick else 6) and ctx.time_left() > 12:
            # beyond 8 players coalition ids leave the 8-bit range
            big += 1
            nb = rng.choice([8, 9])
            vb, eb = gen.sa_game(rng, nb, rng.choice(["int", "int_neg", "addsur_int"]))
            Kb = gen.random_knowledge_set(rng, nb)
            run_case(ctx, {"n": nb, "family": "big_n", "values": vb, "exact": eb, "computer": "superadditive_cached", "K": Kb},
                     do_cert=False, do_lp=False)
            ctx.count(f"n{nb}")
        for _ in range(2):
            K = gen.random_knowledge_set(rng, n)
            for comp in sut.SA_COMPUTERS:
                if comp == "superadditive" and n >= 7 and rng.random() < 0.7:
                    continue
                run_case(ctx, {"n": n, "family": fam, "values": values, "exact": exact, "computer": comp, "K": K,
                               "ops": boundcore.make_history(rng, n, K, rng.choice(["walk", "dirty"])) if rng.random() < 0.35 else None},
                         do_cert=rng.random() < (0.5 if n <= 5 else 0.15),
                         do_lp=(n <= 5 and rng.random() < 0.25) or (n == 6 and not quick and rng.random() < 0.03))
                ctx.count(f"n{n}")


def replay(ctx, case) -> None:
    run_case(ctx, case, do_cert=True, do_lp=case["n"] <= 6)

"""C19 — saved results read back faithfully and are never overwritten.

Monitor: (a) random histories of saves through the real save_json(); after every save the bytes and the parsed
content of data.json are compared with a dictionary model, the entry is read back through Output.from_file /
get_outputs_from_file, and an audit hook records every open/rename of the results file; (b) the solve / greedy /
ugreedy / best_states commands run through __main__.main with the evaluation / search result captured at the call
site and compared with what is read back from the file.
"""
from __future__ import annotations

import copy
import datetime
import json
import math
import os
import shutil
import sys
import tempfile
from argparse import Namespace
from pathlib import Path

import numpy as np

from incomplete_cooperative.run import save as save_mod
from incomplete_cooperative.run.save import Output, get_outputs_from_file, save_json

LEVEL = "exploration"
RULE = ("(a) case = one save_json() call in a history of 1..60 saves with names from a small pool (repeats forced; "
        "empty, unicode, quote-bearing, very long names), gap matrices r x c (r,c>=1) with NaN, -0.0, +-inf, 1e300, "
        "subnormals, action arrays 2-D and 3-D with NaN padding, metadata with Path, date, tuple, None, nested containers "
        "and callables; 6 % of the saves carry unserialisable metadata (tuple-keyed or circular dict: the save may raise but "
        "must leave the file as it was) and 4 % go through the full save() dispatcher (plots first, then data.json), 30 % of "
        "the matrices hold negative gaps. All comparisons use copies taken BEFORE the save (no aliasing). Oracles: new name => every earlier entry's parsed JSON unchanged and the new entry present; "
        "existing name => file bytes unchanged and the file never opened for writing / renamed over (audit hook); "
        "read-back via Output.from_file and get_outputs_from_file: data bit-exact incl. NaN positions and signed zeros, "
        "shapes preserved, actions equal, metadata equal to an independent JSON stringification. (b) case = one command "
        "run (solve x 4 solvers, greedy, ugreedy, best_states; n=3,4; several seeds/limits) through __main__.main: the "
        "matrices returned by evaluate / get_greedy_rewards / get_best_exploitability at the call site equal the ones "
        "read back. Distinct = hash(history seed, index) / hash(command line); non-trivial = file already held >=1 entry.")
SHARDS = {"quick": 4, "thorough": 16}
BUDGET = {"quick": 45, "thorough": 360}
REQUIRED = ["saves_checked", "repeated_name_saves", "read_backs", "command_runs", "audit_events_on_results_file", "failing_saves",
            "saves_through_full_dispatcher"]

_AUDIT = {"on": False, "path": None, "events": []}


def _hook(event, args):
    if not _AUDIT["on"]:
        return
    try:
        if event == "open":
            p = str(args[0])
            if _AUDIT["path"] and p.startswith(_AUDIT["path"]):
                _AUDIT["events"].append(("open", p, args[1], args[2]))
        elif event in ("os.rename", "os.remove", "os.truncate"):
            ps = [str(a) for a in args[:2] if isinstance(a, (str, bytes, os.PathLike))]
            if _AUDIT["path"] and any(p.startswith(_AUDIT["path"]) for p in ps):
                _AUDIT["events"].append((event, *ps))
    except Exception:
        pass


_hook_installed = False


def install_hook():
    global _hook_installed
    if not _hook_installed:
        sys.addaudithook(_hook)
        _hook_installed = True


def stringify(o):
    """Independent model of 'metadata up to JSON stringification'."""
    if isinstance(o, dict):
        return {(k if isinstance(k, str) else str(k)): stringify(v) for k, v in o.items()}
    if isinstance(o, (list, tuple)):
        return [stringify(v) for v in o]
    if isinstance(o, (str, int, bool)) or o is None:
        return o
    if isinstance(o, float):
        return o
    if isinstance(o, Path):
        return str(o)
    return repr(o)


def _some_function(x):  # a callable for the metadata
    return x


def rand_matrix(rng, shape, kind):
    size = int(np.prod(shape))
    specials = [float("nan"), -0.0, 0.0, float("inf"), float("-inf"), 1e300, -1e300, 5e-324, 1.0 / 3.0, 2.0 ** -1074 * 3]
    out = []
    for _ in range(size):
        r = rng.random()
        if kind == "ints":
            out.append(float(rng.randint(0, 31)))
        elif r < 0.25:
            out.append(rng.choice(specials))
        else:
            out.append(rng.uniform(-10, 10) if kind == "mixed" else rng.random())
    return np.array(out, dtype=np.float64).reshape(shape)


def rand_metadata(rng):
    md = {"number_of_players": rng.randint(3, 8), "seed": rng.randint(0, 10**9), "solver": rng.choice(["greedy", None, "random"]),
          "model_dir": Path("/tmp") / f"d{rng.randint(0, 9)}", "gamma": rng.random(), "linear": rng.random() < 0.5}
    extra = rng.sample(["date", "tuple", "nested", "callable", "nan", "unicode", "none", "path_list"], rng.randint(0, 5))
    for e in extra:
        if e == "date":
            md["when"] = datetime.date(2020 + rng.randint(0, 5), rng.randint(1, 12), rng.randint(1, 28))
        elif e == "tuple":
            md["shape"] = (rng.randint(1, 9), rng.randint(1, 9))
        elif e == "nested":
            md["nested"] = {"a": [1, 2, {"b": (3, 4)}], "c": {"d": None}}
        elif e == "callable":
            md["callback"] = _some_function
        elif e == "unicode":
            md["note"] = "žluťoučký kůň \"quoted\" \\ \n newline 🎲"
        elif e == "none":
            md["nothing"] = None
        elif e == "path_list":
            md["paths"] = [Path("a/b"), Path("/c")]
    return md


def same_array(a, b) -> bool:
    """Bit-exact equality (signed zeros included) with NaN positions matching."""
    a = np.asarray(a, dtype=np.float64)
    b = np.asarray(b, dtype=np.float64)
    if a.shape != b.shape:
        return False
    na, nb = np.isnan(a), np.isnan(b)
    if not np.array_equal(na, nb):
        return False
    return a[~na].tobytes() == b[~nb].tobytes()


def metadata_equal(read_back: dict, md: dict) -> bool:
    rb = {k: v for k, v in read_back.items() if k != "func"}
    want = stringify({**{k: v for k, v in md.items() if k != "func"}, "run_type": rb.get("run_type")})
    return json.dumps(rb, sort_keys=True, allow_nan=True) == json.dumps(want, sort_keys=True, allow_nan=True)


def history_case(ctx, case) -> None:
    import random
    rng = random.Random(case["history_seed"])
    install_hook()
    d = Path(tempfile.mkdtemp(prefix="vmon-c19-", dir=case.get("tmp")))
    path = d / "data.json"
    model: dict[str, dict] = {}
    pool = ["run", "", "run ", "žluť", 'q"uo\\te', "a" * 300, "run/1", "0", "run\n2", "metadata", "data", "actions", "nested", "c",
            "a", "seed", "run_type", '"', "{", "null", "run.1", "run.2", "lr0.0003", "lr0.0001", "x.y.z"] + [f"r{i}" for i in range(rng.randint(1, 6))]
    _AUDIT.update(on=True, path=str(path), events=[])
    try:
        for idx in range(case["length"]):
            name = rng.choice(pool)
            r, c = rng.randint(1, 6), rng.randint(1, 6)
            data = rand_matrix(rng, (r, c), rng.choice(["mixed", "unit"]))
            actions = rand_matrix(rng, (r - 1 if r > 1 else 1, c) if rng.random() < 0.7 else (r, rng.randint(1, 3), rng.randint(1, 4)),
                                  rng.choice(["ints", "mixed"]))
            if rng.random() < 0.3:
                actions.flat[rng.randrange(actions.size)] = float("nan")
            md = rand_metadata(rng)
            if rng.random() < 0.3:
                data = np.where(np.isnan(data) | np.isinf(data), data, -np.abs(data) * rng.choice([1.0, 1e-16]))   # negative gaps (rounding residues)
            saved_data, saved_actions = data.copy(), actions.copy()
            failing = rng.random() < 0.06 or (case.get("force") and idx == 1)
            if failing:
                # a save that cannot be serialised (tuple-keyed / circular metadata): it may raise, it must not damage the file
                bad = {}
                bad["self"] = bad
                md_bad = dict(md, broken=rng.choice([{(1, 2): "tuple key"}, bad]))
                out = Output(data, actions, Namespace(func=_some_function, **md_bad))
            else:
                out = Output(data, actions, Namespace(func=_some_function, **md))
            before = path.read_bytes() if path.exists() else None
            before_parsed = json.loads(before) if before is not None else {}
            _AUDIT["events"].clear()
            use_dispatcher = (not failing) and (rng.random() < 0.06 or (case.get("force") and idx in (2, 3)))
            if case.get("force") and idx in (2, 3):
                name = f"forced{idx}"
            elif use_dispatcher and rng.random() < 0.6:
                # run names that agree up to their last dot (seeds, learning rates, timestamps) share plot file names
                name = rng.choice(["run.1", "run.2", "run.3", "lr0.0003", "lr0.0001", "2026-10-01T12:00:00.123", "2026-10-01T12:00:00.456"])
            if use_dispatcher and (not name.strip() or len(name) > 40 or name != name.strip() or not all(ch.isalnum() or ch in ".-:" for ch in name) or name.startswith(".")):
                use_dispatcher = False       # the plot savers build file names from the run name: keep those saves on save_json
            if use_dispatcher:
                # the plot / drawing savers have their own input assumptions (finite gaps, coalition ids): realistic matrices
                data = np.array([[rng.uniform(-1e-15, 3.0) if rng.random() < 0.8 else -rng.random() * 1e-16 for _ in range(c)] for _ in range(r)])
                actions = np.array([[float(rng.randint(3, 30)) for _ in range(c)] for _ in range(max(1, r - 1))])
                if rng.random() < 0.3 and actions.size > 1:      # a run of at least one step has at least one real action id
                    actions[-1, rng.randrange(c)] = float("nan")
                    if np.all(np.isnan(actions)):
                        actions[0, 0] = 3.0
                saved_data, saved_actions = data.copy(), actions.copy()
                out = Output(data, actions, Namespace(func=_some_function, **md))
            try:
                if use_dispatcher:
                    ctx.count("saves_through_full_dispatcher")
                    try:
                        save_mod.save(d, name, out)
                    except FileExistsError:
                        if name not in model:
                            raise
                        ctx.count("dispatcher_repeated_name_raised_in_drawing_saver")     # outside C19; data.json is checked below
                else:
                    save_json(path, name, out)
                if failing:
                    ctx.count("unserialisable_saves_that_did_not_raise")
            except Exception as exc:
                if not failing:
                    ctx.violation("save-raised", f"save raised {type(exc).__name__}: {exc} (save #{idx}, name {name!r})", case)
                    return
            if failing:
                ctx.count("failing_saves")
                now = path.read_bytes() if path.exists() else None
                c2 = dict(case)
                c2["failed_at"] = idx
                if now != before:
                    ok = False
                    try:
                        ok = now is not None and {k: v for k, v in json.loads(now).items() if k != name} == before_parsed and name not in before_parsed
                    except Exception:
                        ok = False
                    if not ok:
                        ctx.violation("failed-save-damaged-file", f"save #{idx} (name {name!r}) raised while serialising and left data.json "
                                      f"changed: {len(before or b'')} -> {len(now or b'')} bytes, earlier entries lost or file unparseable", c2)
                        return
                    model[name] = None       # a complete entry was written before the failure was noticed: tolerated, not modelled
                ctx.case((case["history_seed"], idx, "failing"), before is not None)
                continue
            events = list(_AUDIT["events"])
            ctx.count("audit_events_on_results_file", len(events))
            ctx.count("saves_checked")
            after = path.read_bytes()
            c2 = dict(case)
            c2["failed_at"] = idx
            try:
                parsed = json.loads(after)
            except Exception as exc:
                ctx.violation("file-does-not-parse", f"after save #{idx} (name {name!r}) data.json does not parse: {exc}", c2)
                return
            if name in model:
                ctx.count("repeated_name_saves")
                if after != before:
                    ctx.violation("existing-name-changed-file", f"save #{idx} under existing name {name!r} changed data.json", c2)
                    return
                writes = [e for e in events if (e[0] == "open" and any(ch in str(e[2]) for ch in "wax+")) or e[0] != "open"]
                if writes:
                    ctx.violation("existing-name-wrote-file", f"save #{idx} under existing name {name!r}: {writes[:3]}", c2)
            else:
                for k, v in before_parsed.items():
                    if k not in parsed or json.dumps(parsed[k], sort_keys=True) != json.dumps(v, sort_keys=True):
                        ctx.violation("earlier-entry-changed", f"save #{idx} under new name {name!r} changed or dropped entry {k!r}", c2)
                        return
                if name not in parsed or set(parsed) != set(before_parsed) | {name}:
                    ctx.violation("new-entry-missing", f"save #{idx}: keys {sorted(parsed)[:8]} expected {sorted(set(before_parsed) | {name})[:8]}", c2)
                    return
                model[name] = {"data": saved_data, "actions": saved_actions, "md": md}
            # read back everything saved so far through both readers
            try:
                outs = get_outputs_from_file(path)
                one = Output.from_file(path, name)
            except Exception as exc:
                ctx.violation("read-back-raised", f"{type(exc).__name__}: {exc} after save #{idx}", c2)
                return
            ctx.count("read_backs", len(outs) + 1)
            if set(outs) != set(model):
                ctx.violation("read-back-keys-differ", f"get_outputs_from_file keys {sorted(outs)[:6]} vs saved {sorted(model)[:6]}", c2)
                return
            for k, m in model.items():
                if m is None:
                    continue
                for o in ([outs[k], one] if k == name else [outs[k]]):
                    if not same_array(o.data, m["data"]):
                        ctx.violation("gap-matrix-round-trip", f"entry {k!r}: data read back {np.asarray(o.data).tolist()} saved "
                                      f"{m['data'].tolist()}", c2)
                        return
                    if not same_array(o.actions, m["actions"]):
                        ctx.violation("action-matrix-round-trip", f"entry {k!r}: actions read back shape {np.asarray(o.actions).shape} "
                                      f"{np.asarray(o.actions).tolist()} saved shape {m['actions'].shape} {m['actions'].tolist()}", c2)
                        return
                    if not metadata_equal(vars(o.parsed_args), m["md"]):
                        ctx.violation("metadata-round-trip", f"entry {k!r}: metadata read back {vars(o.parsed_args)} saved {stringify(m['md'])}", c2)
                        return
            ctx.case((case["history_seed"], idx), before is not None,
                     sample=({"save_index": idx, "name": name, "data_shape": list(data.shape), "actions_shape": list(actions.shape),
                              "entries_before": len(before_parsed), "repeated_name": name in before_parsed,
                              "audit_events": [list(map(str, e)) for e in events][:4]} if idx == 3 else None))
    finally:
        _AUDIT.update(on=False, path=None)
        shutil.rmtree(d, ignore_errors=True)


def command_case(ctx, case) -> None:
    """Run a command through __main__.main and compare the saved matrices with what the computation returned."""
    from incomplete_cooperative import __main__ as cli
    from incomplete_cooperative.run import best_states as bs_mod
    from incomplete_cooperative.run import greedy as greedy_mod
    from incomplete_cooperative.run import solve as solve_mod
    d = Path(tempfile.mkdtemp(prefix="vmon-c19cmd-"))
    captured = {}
    cmd = case["command"]
    patches = []

    def wrap(mod, attr):
        real = getattr(mod, attr)

        def spy(*a, **k):
            out = real(*a, **k)
            # deep copies: a later saver must not be able to alter what we compare against (aliasing)
            captured.setdefault(attr, []).append(copy.deepcopy(out))
            return out
        setattr(mod, attr, spy)
        patches.append((mod, attr, real))
    wrap(solve_mod, "evaluate")
    wrap(greedy_mod, "get_greedy_rewards")
    wrap(bs_mod, "get_best_exploitability")
    args = ["prog", "--number-of-players", str(case["n"]), "--game-generator", case["generator"], "--game-class", case["computer"],
            "--gap-function", case["gap"], "--run-steps-limit", str(case["limit"]), "--model-dir", str(d), "--unique-name", case["name"],
            "--seed", str(case["seed"]), "--parallel-environments", str(case["procs"])] + case["sub"]
    try:
        cli.main(cli.get_argument_parser(), args)
        first_run = {k: list(v) for k, v in captured.items()}
        if case.get("twice"):
            first = (d / "data.json").read_bytes()
            try:
                cli.main(cli.get_argument_parser(), args)
            except FileExistsError:
                ctx.count("second_save_raised_in_drawing_saver")      # outside C19: data.json must still be untouched
            if (d / "data.json").read_bytes() != first:
                ctx.violation("existing-name-changed-file", f"running {cmd} twice under one name changed data.json", case)
    except Exception as exc:
        ctx.violation("command-raised", f"{cmd}: {type(exc).__name__}: {exc} ({' '.join(args[1:])})", case)
        shutil.rmtree(d, ignore_errors=True)
        return
    finally:
        for mod, attr, real in patches:
            setattr(mod, attr, real)
    ctx.count("command_runs")
    ctx.count(f"command_{cmd}")
    try:
        out = Output.from_file(d / "data.json", case["name"])
        lim = case["limit"]
        captured = first_run
        if cmd == "solve":
            expl, acts = captured["evaluate"][0]
        elif cmd in ("greedy", "ugreedy"):
            expl, seq = captured["get_greedy_rewards"][0]
            acts = np.reshape(np.array(seq), (len(seq), 1))
        else:
            outs = captured["get_best_exploitability"]
            expl = np.hstack([o[0] for o in outs])
            acts = np.full((lim + 1, len(outs), lim), np.nan)
            for r, o in enumerate(outs):
                for e, coal in enumerate(o[1]):
                    for j, cc in enumerate(coal):
                        acts[e, r, j] = cc
        if not same_array(out.data, np.array(expl)):
            ctx.violation("saved-gaps-not-computed-gaps", f"{cmd}: data.json holds {np.asarray(out.data).tolist()}, the computation returned "
                          f"{np.asarray(expl).tolist()}", case)
        if not same_array(out.actions, np.array(acts)):
            ctx.violation("saved-actions-not-computed-actions", f"{cmd}: data.json holds actions {np.asarray(out.actions).tolist()}, the "
                          f"computation returned {np.asarray(acts).tolist()}", case)
        md = vars(out.parsed_args)
        if str(md.get("number_of_players")) != str(case["n"]) or md.get("unique_name") != case["name"] or str(md.get("seed")) != str(case["seed"]):
            ctx.violation("metadata-round-trip", f"{cmd}: metadata read back {md}", case)
        ctx.case(args[1:], True, sample={"command": " ".join(args[1:]).replace(str(d), "<dir>"), "data_shape": list(np.asarray(out.data).shape),
                                         "actions_shape": list(np.asarray(out.actions).shape)})
    except Exception as exc:
        ctx.violation("read-back-raised", f"{cmd}: {type(exc).__name__}: {exc}", case)
    finally:
        shutil.rmtree(d, ignore_errors=True)


def run(ctx) -> None:
    rng = ctx.rng
    cmds = ["best_states", "solve:greedy", "solve:random", "greedy", "solve:largest", "best_states", "ugreedy", "solve:greedy_worst"]
    # always: one best_states run with several evaluation AND sampling repetitions on differing hidden games (the only
    # command whose saved matrices are assembled from several search results)
    command_case(ctx, {"command": "best_states", "n": 3, "generator": rng.choice(["noisy_factory", "xos", "noisy_factory_square"]),
                       "computer": rng.choice(["superadditive", "superadditive_cached"]), "gap": rng.choice(["exploitability", "l1_norm"]),
                       "limit": 2, "name": "bs", "seed": rng.randint(0, 10**6), "procs": 1,
                       "sub": ["best_states", "--sampling-repetitions", "2", "--eval-repetitions", str(rng.choice([2, 3]))], "twice": False})
    history_case(ctx, {"history_seed": rng.randint(0, 2**31), "length": 12, "force": True})       # guaranteed minimum
    i = 0
    t_cmd = 0.0
    while not ctx.out_of_time(6.0):
        i += 1
        if i % 6 == 0 and t_cmd < ctx.budget_s * 0.5:
            t0 = ctx.elapsed()
            c = cmds[(i // 6 - 1 + 2 * ctx.shard) % len(cmds)]
            n = rng.choice([3, 3, 4])
            nexp = (1 << n) - n - 2
            lim = rng.randint(1, min(nexp, 3))
            sub = {"solve": lambda s: ["solve", "--solver", s, "--solve-repetitions", str(rng.randint(1, 4))],
                   "greedy": lambda s: ["greedy", "--sampling-repetitions", str(rng.randint(1, 3))],
                   "ugreedy": lambda s: ["ugreedy", "--sampling-repetitions", str(rng.randint(1, 3))],
                   "best_states": lambda s: ["best_states", "--sampling-repetitions", str(rng.choice([1, 2, 2])), "--eval-repetitions", str(rng.choice([1, 2, 2]))]}
            cmd, _, solver = c.partition(":")
            command_case(ctx, {"command": cmd, "n": n, "generator": rng.choice(["factory", "noisy_factory", "graph_cycle", "xos", "factory_cheerleader_next"]),
                               "computer": rng.choice(["superadditive", "superadditive_cached"]), "gap": rng.choice(["exploitability", "l1_norm", "l2_norm", "linf_norm"]),
                               "limit": lim, "name": rng.choice(["run1", "r ü", "x"]), "seed": rng.randint(0, 10**6),
                               "procs": rng.choice([1, 2]), "sub": sub[cmd](solver), "twice": rng.random() < 0.3})
            t_cmd += ctx.elapsed() - t0
        else:
            history_case(ctx, {"history_seed": rng.randint(0, 2**31), "length": rng.randint(1, 60)})


def replay(ctx, case) -> None:
    if "command" in case:
        command_case(ctx, case)
    else:
        history_case(ctx, {k: v for k, v in case.items() if k != "failed_at"})

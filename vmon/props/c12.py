"""C12 — evaluate() records true trajectories; results independent of parallelism.

Monitor: the harness supplies the env generator (tagging every env with its task index) and a picklable
after_reset callback that logs (pid, task index, hidden game) from inside the worker that runs the task.  After
evaluate() returned, every column is replayed on its logged hidden game against the reference; matrices and
hidden games are compared across worker counts.
"""
from __future__ import annotations

import json
import os
import random
import time

import numpy as np

from incomplete_cooperative.evaluation import evaluate
from incomplete_cooperative.run.model import GAP_FUNCTIONS, ModelInstance
from incomplete_cooperative.solvers import SOLVERS

from .. import env as venv
from .. import gen, sut
from ..refmodel import minimal_masks, ref_bounds
from .c11 import expected_gap

LEVEL = "exploration"
RULE = ("case = one column (repetition) of an evaluate() result for (solver, generator, computer, gap, seed, "
        "repetitions in {1,5,24,33}, step limit, env budget) under a worker count in {1,2,5} (quick) / "
        "{1,2,3,4,5,8,16} (thorough), with 0-2 ms jitter in the workers. The hidden game of every task is logged from "
        "inside the worker. Oracles per column: row 0 == reference gap at minimal information of that task's hidden "
        "game, row t+1 == reference gap after revealing actions[:t+1]; ids explorable and distinct; zero padding only "
        "after a legitimate done; hidden games of different tasks pairwise distinct (continuous generators); for one "
        "seed, hidden games and both matrices identical for every worker count. Distinct = hash(hidden game, "
        "actions, config); non-trivial = at least 2 steps and a non-constant gap curve. Additionally the REAL command line "
        "(python -m incomplete_cooperative ... solve, forkserver start method, nothing patched) runs in fresh interpreters for "
        "--parallel-environments 1/2/3 (thorough: ../5/8) with one seed: the saved matrices must be identical.")
SHARDS = {"quick": 4, "thorough": 16}
BUDGET = {"quick": 50, "thorough": 420}
REQUIRED = ["evaluate_calls", "columns_replayed", "worker_events", "cross_process_comparisons", "multi_worker_calls",
            "independence_checks", "cli_solve_runs", "cli_cross_process_comparisons"]

CONTINUOUS = ["noisy_factory", "noisy_factory_square", "noisy_factory_fixed", "xos", "xos3", "xs", "oxs", "xs2", "xs3", "xs6", "xos12"]
DISCRETE = ["factory", "factory_cheerleader_next", "graph_cycle", "k_budget_generator", "covg_fn_generator", "graph_random"]
SAM_GENS = {"xos", "xos3", "xs", "oxs", "k_budget_generator", "covg_fn_generator", "xs2", "xs3", "xs6", "xos12"}

_STATE = {"log": None, "jitter": 0.0}


def log_after_reset(env) -> None:
    """Runs inside whichever process executes the task."""
    if _STATE["jitter"]:
        time.sleep(random.random() * _STATE["jitter"])
    inner = getattr(env, "icg_gym", env)
    line = json.dumps({"pid": os.getpid(), "task": getattr(inner, "_vmon_task", -1),
                       "values": [float(x).hex() for x in inner.full_game.get_values()],
                       "known": [int(i) for i in np.nonzero(np.array(inner.incomplete_game.are_values_known()))[0]]}) + "\n"
    fd = os.open(_STATE["log"], os.O_WRONLY | os.O_APPEND | os.O_CREAT, 0o644)
    try:
        os.write(fd, line.encode())
    finally:
        os.close(fd)


class TaggingEnvGen:
    def __init__(self, inst):
        self.inst, self.i = inst, 0

    def __call__(self):
        e = self.inst.get_env()
        e._vmon_task = self.i
        self.i += 1
        return e


def read_log():
    p = _STATE["log"]
    if not os.path.exists(p):
        return []
    out = [json.loads(l) for l in open(p) if l.strip()]
    os.unlink(p)
    return out


def make_instance(cfg):
    inst = ModelInstance(number_of_players=cfg["n"], game_class=cfg["computer"], game_generator=cfg["generator"],
                         gap_function=cfg["gap"], run_steps_limit=cfg["budget"], seed=cfg["seed"],
                         parallel_environments=cfg.get("procs", 1))
    if cfg.get("scale", 1.0) != 1.0 or cfg.get("offset"):
        from .c09 import Recorder       # re-expresses the hidden games in other units / adds huge stand-alone worths
        inst.game_generator_fn = Recorder(inst.game_generator_fn, cfg.get("scale", 1.0), cfg.get("offset", 0.0))
    return inst


def monitored_evaluate(cfg, procs):
    inst = make_instance(cfg)
    solver = SOLVERS[cfg["solver"]](inst)
    _STATE["jitter"] = cfg.get("jitter", 0.0)
    try:
        expl, acts = evaluate(solver.next_step, TaggingEnvGen(inst), cfg["repetitions"], cfg["limit"],
                              GAP_FUNCTIONS[cfg["gap"]], procs, log_after_reset)
    finally:
        _STATE["jitter"] = 0.0
    return np.array(expl), np.array(acts), read_log()


def check_result(ctx, cfg, procs, expl, acts, events) -> dict | None:
    """Replay every column. Returns {'ok': all columns true, 'hidden': [...]}."""
    n, reps, limit = cfg["n"], cfg["repetitions"], cfg["limit"]
    c = dict(cfg)
    c["processes"] = [procs]
    ctx.count("evaluate_calls")
    ctx.count("worker_events", len(events))
    if procs > 1:
        ctx.count("multi_worker_calls")
    ctx.seen("worker_pid_counts", f"{procs}:{len({e['pid'] for e in events})}")
    ctx.seen("chunkings", f"{procs}:{reps}")
    if expl.shape != (limit + 1, reps) or acts.shape != (limit, reps):
        ctx.violation("result-shape-wrong", f"shapes {expl.shape} {acts.shape} for limit={limit}, repetitions={reps}", c)
        return None
    tasks = sorted(e["task"] for e in events)
    if tasks != list(range(reps)):
        ctx.violation("tasks-not-run-exactly-once", f"processes={procs}: task indices logged by workers {tasks[:40]} expected 0..{reps - 1}", c)
        return None
    hidden = {e["task"]: [float.fromhex(x) for x in e["values"]] for e in events}
    mini = sorted(minimal_masks(n))
    explor = set(gen.explorable(n))
    ok = True
    for e in events:
        if e["known"] != mini:
            ok = False
            ctx.violation("task-not-started-from-minimal-information", f"task {e['task']} started with known set {e['known']}", c)
    for j in range(reps):
        values = hidden[j]
        scale = float(np.max(np.abs(np.array(values))))
        tol = sut.gap_tol(n, scale)
        ctx.count("columns_replayed")
        col_ok = True
        want0 = expected_gap(n, values, mini, cfg["computer"], cfg["gap"])
        if not abs(float(expl[0, j]) - want0) <= tol:
            col_ok = False
            ctx.violation("row0-not-gap-at-minimal-information", f"processes={procs} column {j}: row 0 = {expl[0, j]!r}, gap at minimal "
                          f"information of that repetition's hidden game {want0!r} ({cfg['solver']}, {cfg['generator']}, n={n})", c)
        chosen: list[int] = []
        steps = 0
        padded = False
        for t in range(limit):
            a = float(acts[t, j])
            if padded:
                if a != 0 or float(expl[t + 1, j]) != 0:
                    col_ok = False
                    ctx.violation("data-after-padding", f"column {j} row {t}: non-zero entries after the episode ended", c)
                    break
                continue
            if a == 0:
                # padding: legitimate only if the env was done after the previous step
                lo, up = (None, None)
                kd = sorted(set(mini) | set(chosen))
                g = sut.new_game(n, cfg["computer"])
                sut.set_knowledge(g, values, kd)
                g.compute_bounds()
                _, lo, up = sut.table(g)
                done = (cfg["budget"] is not None and steps >= cfg["budget"]) or len(chosen) == len(explor) \
                    or bool(np.all(np.abs(up - lo) <= 1e-9 * scale))
                if not done or t == 0 and cfg["limit"] > 0 and not done:
                    col_ok = False
                    ctx.violation("trajectory-truncated", f"processes={procs} column {j}: padding from step {t} although the episode "
                                  f"was not done (chosen={chosen}, budget={cfg['budget']})", c)
                    break
                if float(expl[t + 1, j]) != 0:
                    col_ok = False
                    ctx.violation("data-after-padding", f"column {j} row {t + 1}: gap {expl[t + 1, j]!r} with padded action", c)
                    break
                padded = True
                ctx.count("padded_columns")
                continue
            m = int(a)
            if m != a or m not in explor or m in chosen:
                col_ok = False
                ctx.violation("action-id-invalid", f"processes={procs} column {j} step {t}: recorded id {a!r} is "
                              f"{'repeated' if m in chosen else 'not an explorable coalition'} (chosen so far {chosen})", c)
                break
            chosen.append(m)
            steps += 1
            want = expected_gap(n, values, sorted(set(mini) | set(chosen)), cfg["computer"], cfg["gap"])
            if not abs(float(expl[t + 1, j]) - want) <= tol:
                col_ok = False
                ctx.violation("row-not-gap-after-recorded-actions", f"processes={procs} column {j}: row {t + 1} = {expl[t + 1, j]!r}, gap "
                              f"after revealing {chosen} in that repetition's hidden game {want!r} ({cfg['solver']}, "
                              f"{cfg['generator']}, {cfg['computer']}, n={n})", c)
                break
        ok = ok and col_ok
        curve = [float(x) for x in expl[: len(chosen) + 1, j]]
        ctx.case((values, chosen, cfg["solver"], cfg["computer"], cfg["gap"], procs),
                 len(chosen) >= 2 and len({round(x, 12) for x in curve}) > 1,
                 sample=({"solver": cfg["solver"], "generator": cfg["generator"], "computer": cfg["computer"], "gap": cfg["gap"],
                          "n": n, "processes": procs, "column": j, "actions": chosen, "gaps": curve} if j == 0 else None))
    # independence of the draws
    if cfg["generator"] in CONTINUOUS and reps > 1:
        ctx.count("independence_checks")
        keys = [tuple(hidden[j]) for j in range(reps)]
        if len(set(keys)) != reps:
            dup = next(j for j in range(reps) if keys.index(keys[j]) != j)
            ok = False
            ctx.violation("repetitions-share-a-hidden-game", f"processes={procs}: repetition {dup} was evaluated on the same hidden game as "
                          f"repetition {keys.index(keys[dup])}; {len(set(keys))} distinct games in {reps} repetitions "
                          f"({cfg['generator']}, seed={cfg['seed']})", c)
    return {"ok": ok, "hidden": [hidden[j] for j in range(reps)]}


def compare_runs(ctx, cfg, runs) -> None:
    """runs: list of (procs, expl, acts, info). Same seed => same hidden games and same matrices."""
    base = runs[0]
    for other in runs[1:]:
        ctx.count("cross_process_comparisons")
        c = dict(cfg)
        c["processes"] = [base[0], other[0]]
        if base[3] is None or other[3] is None:
            continue
        if base[3]["hidden"] != other[3]["hidden"]:
            ctx.violation("hidden-games-depend-on-process-count", f"seed {cfg['seed']}: repetitions see different hidden games with "
                          f"{base[0]} and {other[0]} worker processes ({cfg['generator']})", c)
            continue
        same = np.array_equal(base[1], other[1]) and np.array_equal(base[2], other[2])
        if same:
            continue
        seeded = cfg["generator"] not in ("graph", "predictible_factory")
        if not seeded:
            continue
        if cfg["solver"] == "random" and max(base[0], other[0]) > 1 and base[3]["ok"] and other[3]["ok"]:
            # every column is a true trajectory on the same, independent hidden games; only the solver's own choices differ
            ctx.violation("random-solver-rng-pickled-per-chunk", f"--solver random: actions differ between {base[0]} and {other[0]} "
                          f"processes for seed {cfg['seed']} (each trajectory is true)", c)
        else:
            j = int(np.nonzero(np.any(base[1] != other[1], axis=0) | np.any(base[2] != other[2], axis=0))[0][0])
            ctx.violation("result-depends-on-process-count", f"seed {cfg['seed']}: column {j} differs between {base[0]} and {other[0]} "
                          f"worker processes ({cfg['solver']}, {cfg['generator']}, n={cfg['n']})", c)


def run_config(ctx, cfg) -> None:
    runs = []
    for procs in cfg["processes"]:
        try:
            expl, acts, events = monitored_evaluate(cfg, procs)
        except Exception as exc:
            c = dict(cfg)
            c["processes"] = [procs]
            ctx.violation("evaluate-raised", f"{type(exc).__name__}: {exc} (processes={procs}, {cfg['solver']}, {cfg['generator']})", c)
            read_log()
            continue
        info = check_result(ctx, cfg, procs, expl, acts, events)
        runs.append((procs, expl, acts, info))
    if len(runs) > 1:
        compare_runs(ctx, cfg, runs)


def cli_solve(ctx, cfg) -> None:
    """The `solve` command function end to end (default worker count 2), with evaluate observed at its call site."""
    import argparse

    from incomplete_cooperative.run import solve as solve_mod
    captured = {}
    real_eval = solve_mod.evaluate

    def spy(get_next_step, env_generator, repetitions, limit, gap_func, processes=1, after_reset=None):
        inst = env_generator.__self__
        out = real_eval(get_next_step, TaggingEnvGen(inst), repetitions, limit, gap_func, processes, log_after_reset)
        captured.update(expl=np.array(out[0]), acts=np.array(out[1]), procs=processes, limit=limit, reps=repetitions)
        return out
    solve_mod.evaluate = spy
    real_save = solve_mod.save
    solve_mod.save = lambda *a, **k: None
    try:
        inst = make_instance(cfg)
        args = argparse.Namespace(solver=cfg["solver"], solve_repetitions=cfg["repetitions"], func=solve_mod.solve_func)
        solve_mod.solve_func(inst, args)
    except Exception as exc:
        ctx.violation("solve-command-raised", f"{type(exc).__name__}: {exc} ({cfg})", cfg)
        return
    finally:
        solve_mod.evaluate = real_eval
        solve_mod.save = real_save
    events = read_log()
    c = dict(cfg)
    c["limit"], c["repetitions"] = captured["limit"], captured["reps"]
    check_result(ctx, c, captured["procs"], captured["expl"], captured["acts"], events)
    ctx.count("cli_solve_runs")


def cli_differential(ctx, cfg) -> None:
    """The real command line (`python -m incomplete_cooperative ... solve`, forkserver start method, nothing patched) in
    fresh interpreters for several --parallel-environments values: for one seed the saved matrices must be identical."""
    import shutil
    import subprocess
    import tempfile
    base = tempfile.mkdtemp(prefix="vmon-c12cli-")
    procs = []
    try:
        for p in cfg["processes"]:
            d = os.path.join(base, f"p{p}")
            cmd = [venv.PYTHON, "-c", "from incomplete_cooperative.__main__ import run_main; run_main()",
                   "--number-of-players", str(cfg["n"]), "--game-generator", cfg["generator"], "--game-class", cfg["computer"],
                   "--gap-function", cfg["gap"], "--seed", str(cfg["seed"]), "--model-dir", d, "--unique-name", "run",
                   "--parallel-environments", str(p)] + (["--run-steps-limit", str(cfg["budget"])] if cfg["budget"] else []) + \
                  ["solve", "--solver", cfg["solver"], "--solve-repetitions", str(cfg["repetitions"])]
            procs.append((p, d, subprocess.Popen(cmd, env=venv.child_env({"PYTHONHASHSEED": str(p)}), cwd=base, stdout=subprocess.DEVNULL, stderr=subprocess.PIPE, text=True)))
        results = []
        for p, d, pr in procs:
            try:
                _, err = pr.communicate(timeout=600)
            except subprocess.TimeoutExpired:
                pr.kill()
                ctx.count("cli_runs_timed_out")
                continue
            f = os.path.join(d, "data.json")
            if pr.returncode < 0:
                # killed by a signal (in practice the kernel's OOM killer: every CLI process and every pool worker imports
                # torch): a resource limit of the sandbox, not an observation about the tree
                ctx.count("cli_runs_killed_by_signal")
                continue
            if pr.returncode != 0 or not os.path.exists(f):
                ctx.violation("solve-command-raised", f"command line solve exited {pr.returncode} with --parallel-environments {p}: {err[-300:]}",
                              dict(cfg, cli=True, processes=[p]))
                continue
            run = json.load(open(f))["run"]
            results.append((p, np.array(run["data"], dtype=float), np.array(run["actions"], dtype=float)))
            ctx.count("cli_process_runs")
        n = cfg["n"]
        explor = set(gen.explorable(n))
        for p, data, acts in results:
            for j in range(acts.shape[1]):
                col = [int(a) for a in acts[:, j] if a != 0]
                if len(set(col)) != len(col) or any(a not in explor for a in col):
                    ctx.violation("action-id-invalid", f"command line, --parallel-environments {p}: column {j} actions {acts[:, j].tolist()}",
                                  dict(cfg, cli=True, processes=[p]))
        for (p1, d1, a1), (p2, d2, a2) in zip(results, results[1:]):
            ctx.count("cross_process_comparisons")
            ctx.count("cli_cross_process_comparisons")
            if d1.shape != d2.shape or not (np.array_equal(d1, d2) and np.array_equal(a1, a2)):
                ctx.violation("result-depends-on-process-count", f"command line solve --solver {cfg['solver']} seed {cfg['seed']}: results differ "
                              f"between --parallel-environments {p1} and {p2} ({cfg['generator']}, n={n}, {cfg['repetitions']} repetitions)",
                              dict(cfg, cli=True, processes=[p1, p2]))
        ctx.case(("cli", cfg["seed"], cfg["solver"], cfg["generator"], tuple(cfg["processes"])), True,
                 sample={"cli": True, "solver": cfg["solver"], "generator": cfg["generator"], "n": n, "seed": cfg["seed"],
                         "processes": cfg["processes"], "repetitions": cfg["repetitions"]})
    finally:
        shutil.rmtree(base, ignore_errors=True)


def run(ctx) -> None:
    rng = ctx.rng
    quick = ctx.tier == "quick"
    venv.WORK_DIR.mkdir(parents=True, exist_ok=True)
    for _ in range(1 if quick else 3):
        if ctx.elapsed() > 0.2 * ctx.budget_s or ctx.shard >= 4:      # at most four shards start command lines (memory)
            break
        cli_differential(ctx, {"n": rng.choice([3, 4]), "generator": rng.choice(CONTINUOUS), "computer": rng.choice(sut.SA_COMPUTERS),
                               "gap": rng.choice(list(GAP_FUNCTIONS)), "solver": rng.choice(["greedy", "largest", "greedy_worst"]),
                               "seed": rng.randint(0, 10**6), "repetitions": rng.choice([5, 7, 12]), "budget": rng.choice([None, 2, 3]),
                               "processes": [1, 2, 3] if quick else [1, 2, 3, 5]})
    _STATE["log"] = str(venv.WORK_DIR / f"c12-events-{os.getpid()}.jsonl")
    proc_choices = [1, 2, 5] if quick else [1, 2, 3, 4, 5, 8, 16]
    # guaranteed minimum, independent of the time budget: one multi-worker comparison
    run_config(ctx, {"n": 3, "generator": "noisy_factory", "computer": "superadditive_cached", "gap": "exploitability", "solver": "largest",
                     "seed": rng.randint(0, 10**6), "repetitions": 5, "limit": 3, "budget": None, "processes": [1, 2], "jitter": 0.0})
    cli_solve(ctx, {"n": 3, "generator": "noisy_factory", "computer": "superadditive", "gap": "exploitability", "solver": "greedy",
                    "seed": rng.randint(0, 10**6), "repetitions": 3, "budget": None, "procs": 2, "limit": None})
    # look-ahead solvers on games where a single reveal can end the episode (full-length runs, sequential: cheap)
    for _ in range(8 if quick else 40):
        if ctx.elapsed() > 0.45 * ctx.budget_s:
            break
        run_config(ctx, {"n": 4, "generator": rng.choice(["xs2", "xs2", "xs3", "k_budget_generator"]), "computer": rng.choice(sut.SA_COMPUTERS),
                         "gap": rng.choice(list(GAP_FUNCTIONS)), "solver": rng.choice(["greedy_worst", "greedy_worst", "greedy"]),
                         "seed": rng.randint(0, 10**6), "repetitions": 4, "limit": 16, "budget": None, "processes": [1]})
        ctx.count("full_length_lookahead_runs")
    # always: full-length runs on hidden games with huge stand-alone worths (values >> remaining uncertainty)
    for _ in range(3 if quick else 12):
        if ctx.elapsed() > 0.55 * ctx.budget_s:
            break
        run_config(ctx, {"n": 4, "generator": rng.choice(["noisy_factory", "xos", "graph_random"]), "computer": rng.choice(sut.SA_COMPUTERS),
                         "gap": rng.choice(list(GAP_FUNCTIONS)), "solver": "largest", "seed": rng.randint(0, 10**6), "repetitions": 3,
                         "limit": 16, "budget": None, "processes": [1], "offset": -1e6})
        ctx.count("full_length_runs_on_offset_games")
    i = 0
    # quick tier: a fixed number of configurations (so that the amount of work does not depend on the speed of the machine)
    while i < (12 if quick else 10**9) and not ctx.out_of_time(10.0):
        i += 1
        solver = ["greedy", "largest", "random", "greedy_worst"][i % 4]
        g = rng.choice(CONTINUOUS if rng.random() < 0.65 else DISCRETE)
        if solver.startswith("greedy") and rng.random() < 0.5:
            # games in which ONE reveal can pin down everything else: a look-ahead probe then sees an ended episode
            g = rng.choice(["xs2", "xs2", "xs3", "xs6", "k_budget_generator", "factory"])
        comp = rng.choice(list(sut.SA_COMPUTERS) + (["sam_apx_1", "sam_apx_10"] if g in SAM_GENS else []))
        n = rng.choice([3, 4, 4]) if solver.startswith("greedy") else rng.choice([3, 4, 4, 5])
        nexp = (1 << n) - n - 2
        budget = rng.choice([None, None, rng.randint(1, nexp)])
        limit = rng.choice([rng.randint(1, nexp), nexp, nexp + 2, 1 << n]) if not solver.startswith("greedy") else rng.randint(1, min(nexp + 1, 5))
        reps = rng.choice([1, 5, 24, 33] if not (solver.startswith("greedy") and n == 4) else [1, 5, 24])
        procs = sorted(rng.sample(proc_choices, 2 if quick else 3))
        if quick and 1 not in procs and rng.random() < 0.6:
            procs = [1] + procs[1:]
        run_config(ctx, {"n": n, "generator": g, "computer": comp, "gap": rng.choice(list(GAP_FUNCTIONS)), "solver": solver,
                         "seed": rng.randint(0, 10**6), "repetitions": reps, "limit": limit, "budget": budget,
                         "processes": procs, "jitter": rng.choice([0.0, 0.002]), "scale": rng.choice(sut.SCALES),
                         "offset": rng.choice([0.0, 0.0, 0.0, -1e6])})
        if i % 5 == 1:
            cli_solve(ctx, {"n": 3, "generator": rng.choice(CONTINUOUS), "computer": rng.choice(sut.SA_COMPUTERS),
                            "gap": rng.choice(list(GAP_FUNCTIONS)), "solver": rng.choice(list(SOLVERS)),
                            "seed": rng.randint(0, 10**6), "repetitions": rng.choice([3, 7, 12]), "budget": rng.choice([None, 2]),
                            "procs": 2, "limit": None})


def replay(ctx, case) -> None:
    venv.WORK_DIR.mkdir(parents=True, exist_ok=True)
    _STATE["log"] = str(venv.WORK_DIR / f"c12-events-{os.getpid()}.jsonl")
    if case.get("cli"):
        cli_differential(ctx, case)
    elif case.get("limit") is None:
        cli_solve(ctx, case)
    else:
        run_config(ctx, case)

"""icontract contracts attached from outside to the real classes of the tree under test.

install() decorates the classes IN PLACE (icontract.invariant mutates the class; methods are re-bound on the class),
so every workload - including the repository's own test-suite, see contracts_suite.py - runs with the checks on.
Every condition counts its evaluations; a broken condition is appended to $VMON_CONTRACT_LOG (one JSON line) and
raises ContractBroken.
"""
from __future__ import annotations

import atexit
import json
import os

import icontract
import numpy as np

STATS: dict[str, int] = {}
_LOG = os.environ.get("VMON_CONTRACT_LOG")
_installed = False


class ContractBroken(AssertionError):
    pass


def _count(name: str) -> None:
    STATS[name] = STATS.get(name, 0) + 1


def _record(name: str, detail: str) -> None:
    if _LOG:
        with open(_LOG, "a") as f:
            f.write(json.dumps({"kind": "violation", "contract": name, "detail": detail[:1500], "pid": os.getpid()}) + "\n")


def _dump_stats() -> None:
    if _LOG and STATS:
        with open(_LOG, "a") as f:
            f.write(json.dumps({"kind": "stats", "pid": os.getpid(), "stats": STATS}) + "\n")


def _describe(obj) -> str:
    try:
        inner = getattr(obj, "icg_gym", obj)
        game = getattr(inner, "incomplete_game", inner)
        known = [int(i) for i in np.nonzero(np.array(game._values[:, 0]))[0]]
        return f"{type(obj).__name__}(n={game.number_of_players}, known={known}, table={np.array(game._values[:, 1:]).tolist()})"
    except Exception:
        return repr(obj)[:300]


def _err(name: str):
    def make(self):
        detail = _describe(self)
        _record(name, detail)
        return ContractBroken(f"vmon contract '{name}' broken: {detail[:600]}")
    return make


def _err_gym(name: str):
    def make(gym):
        detail = _describe(gym)
        _record(name, detail)
        return ContractBroken(f"vmon contract '{name}' broken: {detail[:600]}")
    return make


# ---- IncompleteCooperativeGame ---------------------------------------------------------------------

def game_known_rows_degenerate(self) -> bool:
    _count("game_invariant")
    v = self._values
    k = v[:, 0]
    if not np.all((k == 0) | (k == 1)):
        return False
    kn = k == 1
    lo, up = v[kn, 1], v[kn, 2]
    return bool(np.all((lo == up) | (np.isnan(lo) & np.isnan(up))))


def _table_snapshot(self):
    return np.array(self._values, copy=True)


def compute_keeps_known_rows(self, OLD) -> bool:
    _count("compute_bounds_post")
    old, new = OLD.table, self._values
    if not np.array_equal(old[:, 0], new[:, 0]):
        return False
    kn = old[:, 0] == 1
    return bool(np.array_equal(old[kn], new[kn], equal_nan=True))


def compute_idempotent(self) -> bool:
    _count("compute_bounds_idempotent")
    if self._values.shape[0] > 64:
        return True
    twin = type(self)(self.number_of_players, self._bounds_computer)
    twin._values = np.array(self._values, copy=True)
    try:
        self._bounds_computer(twin)
    except AssertionError:
        return True          # computer not defined on this knowledge (its own precondition)
    return bool(np.array_equal(twin._values, self._values, equal_nan=True))


# ---- ICG_Gym -----------------------------------------------------------------------------------------

def _env_snapshot(self):
    return (np.array(self.incomplete_game.are_values_known(), copy=True), self.steps_taken)


def env_step_reveals_exactly_one(self, action, result, OLD) -> bool:
    _count("env_step_post")
    before, steps = OLD.env
    after = np.array(self.incomplete_game.are_values_known())
    new = np.nonzero(after & ~before)[0]
    lost = np.nonzero(before & ~after)[0]
    want = self.explorable_coalitions[action].id
    if len(lost) or list(new) != [want] or self.steps_taken != steps + 1:
        return False
    return result[4].get("chosen_coalition") == want


def env_unstep_unreveals_exactly_one(self, action, result, OLD) -> bool:
    _count("env_unstep_post")
    before, steps = OLD.env
    after = np.array(self.incomplete_game.are_values_known())
    new = np.nonzero(after & ~before)[0]
    lost = np.nonzero(before & ~after)[0]
    return len(new) == 0 and list(lost) == [self.explorable_coalitions[action].id] and self.steps_taken == steps - 1


def env_values_are_hidden_values(self) -> bool:
    """After reset/step/unstep: known values equal the hidden game's, mask = unknown explorable."""
    _count("env_knowledge_post")
    inc = self.incomplete_game
    known = np.array(inc.are_values_known())
    truth = np.array(self.full_game.get_values())
    kv = np.array(inc.get_known_values())
    if not np.array_equal(kv[known], truth[known]):
        return False
    mask = np.array(self.action_masks())
    want = np.array([not known[c.id] for c in self.explorable_coalitions])
    return bool(np.array_equal(mask, want))


def env_result_matches_properties(self, result) -> bool:
    _count("env_result_post")
    state, reward, done, trunc, info = result
    r = self.reward
    same_reward = (reward == r) or (np.isnan(reward) and np.isnan(r))
    return bool(np.array_equal(np.array(state), np.array(self.state), equal_nan=True) and same_reward and done == self.done
                and trunc is False)


def env_reset_forgets(self, result) -> bool:
    _count("env_reset_post")
    known = np.array(self.incomplete_game.are_values_known())
    want = np.zeros_like(known)
    want[[c.id for c in self.initially_known_coalitions]] = True
    return bool(np.array_equal(known, want) and self.steps_taken == 0 and result[1].get("game") is self.full_game)


# ---- solvers -----------------------------------------------------------------------------------------

def _solver_snapshot(gym):
    inner = getattr(gym, "icg_gym", gym)
    return (np.array(inner.incomplete_game._values, copy=True), inner.steps_taken, np.array(inner.full_game.get_values(), copy=True))


def solver_leaves_env_untouched(gym, result, OLD) -> bool:
    _count("solver_next_step_post")
    inner = getattr(gym, "icg_gym", gym)
    t, s, f = OLD.env
    if not (np.array_equal(t, inner.incomplete_game._values, equal_nan=True) and s == inner.steps_taken
            and np.array_equal(f, np.array(inner.full_game.get_values()), equal_nan=True)):
        return False
    mask = np.array(gym.action_masks())
    return (not mask.any()) or bool(mask[int(result)])


def install(which=("game", "compute", "env", "solvers")) -> None:
    global _installed
    if _installed:
        return
    _installed = True
    from incomplete_cooperative.game import IncompleteCooperativeGame as G
    if "game" in which:
        icontract.invariant(game_known_rows_degenerate, error=_err("game: known flag in {0,1} and known => lower == upper"))(G)
    if "compute" in which:
        f = G.compute_bounds
        f = icontract.ensure(compute_idempotent, error=_err("compute_bounds: recomputing changes nothing"))(f)
        f = icontract.ensure(compute_keeps_known_rows, error=_err("compute_bounds: knowledge and known rows untouched"))(f)
        f = icontract.snapshot(_table_snapshot, name="table")(f)
        G.compute_bounds = f
    if "env" in which:
        from incomplete_cooperative.icg_gym import ICG_Gym as E
        step = E.step
        step = icontract.ensure(env_result_matches_properties, error=_err("env.step: returned tuple equals the public state"))(step)
        step = icontract.ensure(env_values_are_hidden_values, error=_err("env.step: known values are the hidden values, mask = unknown explorable"))(step)
        step = icontract.ensure(env_step_reveals_exactly_one, error=_err("env.step: exactly the chosen coalition becomes known"))(step)
        E.step = icontract.snapshot(_env_snapshot, name="env")(step)
        un = E.unstep
        un = icontract.ensure(env_result_matches_properties, error=_err("env.unstep: returned tuple equals the public state"))(un)
        un = icontract.ensure(env_values_are_hidden_values, error=_err("env.unstep: known values are the hidden values"))(un)
        un = icontract.ensure(env_unstep_unreveals_exactly_one, error=_err("env.unstep: exactly the chosen coalition is forgotten"))(un)
        E.unstep = icontract.snapshot(_env_snapshot, name="env")(un)
        rs = E.reset
        rs = icontract.ensure(env_values_are_hidden_values, error=_err("env.reset: known values are the hidden values"))(rs)
        rs = icontract.ensure(env_reset_forgets, error=_err("env.reset: only the initial knowledge remains, new hidden game reported"))(rs)
        E.reset = rs
    if "solvers" in which:
        from incomplete_cooperative.solvers.greedy import GreedySolver
        from incomplete_cooperative.solvers.largest_coalition import LargestSolver
        from incomplete_cooperative.solvers.random import RandomSolver
        for S in (GreedySolver, LargestSolver, RandomSolver):
            f = icontract.ensure(solver_leaves_env_untouched, error=_err_gym(f"{S.__name__}.next_step: valid action, env untouched"))(S.next_step)
            S.next_step = icontract.snapshot(_solver_snapshot, name="env")(f)
    atexit.register(_dump_stats)

"""Entry point: python -m vmon.main Cxx [--tier T] [--replay FILE] [--shard i/N --partial-out FILE]."""
from __future__ import annotations

import argparse
import faulthandler
import importlib
import json
import os
import shutil
import subprocess
import sys
import time
import traceback
from pathlib import Path

from . import env
from .evidence import Ctx, finish


def load_module(pid: str):
    return importlib.import_module(f"vmon.props.{pid.lower()}")


def run_shard(pid: str, tier: str, shard: int, nshards: int, out: Path) -> int:
    module = load_module(pid)
    budget = getattr(module, "BUDGET", {}).get(tier, 60 if tier == "quick" else 300)
    scale = float(os.environ.get("VERIF_BUDGET_SCALE", "1"))
    ctx = Ctx(pid, tier, env.seed(), shard, nshards, budget_s=budget * scale)
    faulthandler.enable()
    faulthandler.dump_traceback_later(budget * scale * 3 + 120, exit=False)
    err = env.assert_tree()
    if err:
        ctx.mark_inconclusive(err)
    else:
        try:
            module.run(ctx)
        except BaseException as exc:  # a crash of the harness is not a verdict on the tree
            if isinstance(exc, KeyboardInterrupt):
                raise
            tb = traceback.format_exc()
            sys.stderr.write(tb)
            frames = traceback.extract_tb(exc.__traceback__)
            repo = str(env.REPO)
            inner_py = [f for f in frames if not f.filename.startswith("<")]
            if inner_py and inner_py[-1].filename.startswith(repo):
                # the library itself raised on an input the same workload handles on the unchanged tree: that is an
                # observation about the tree, not a harness failure (safety net; the modules guard most calls themselves)
                f = inner_py[-1]
                ctx.violation("library-raised-unexpectedly",
                              f"{type(exc).__name__}: {exc} at {os.path.relpath(f.filename, repo)}:{f.lineno} ({f.name}) in shard {shard}",
                              {"kind": "shard-crash", "shard": shard, "nshards": nshards, "tier": tier, "traceback": tb[-1500:]})
            else:
                ctx.mark_inconclusive(f"harness error in shard {shard}: {exc!r} :: {tb[-600:]}")
    faulthandler.cancel_dump_traceback_later()
    out.write_text(json.dumps(ctx.to_partial()))
    return 0


def run_parent(pid: str, tier: str) -> int:
    module = load_module(pid)
    t0 = time.monotonic()
    nshards = getattr(module, "SHARDS", {}).get(tier, 1 if tier == "quick" else 16)
    nshards = max(1, min(nshards, int(os.environ.get("VERIF_MAX_SHARDS", "16"))))
    budget = getattr(module, "BUDGET", {}).get(tier, 60 if tier == "quick" else 300)
    scale = float(os.environ.get("VERIF_BUDGET_SCALE", "1"))
    work = env.WORK_DIR / f"{pid}-{tier}-{os.getpid()}"
    work.mkdir(parents=True, exist_ok=True)
    ctx = Ctx(pid, tier, env.seed(), 0, nshards, budget_s=budget * scale)
    procs = []
    for i in range(nshards):
        out = work / f"shard{i}.json"
        log = open(work / f"shard{i}.log", "w")
        cmd = [env.PYTHON, "-m", "vmon.main", pid, "--tier", tier, "--shard", f"{i}/{nshards}", "--partial-out", str(out)]
        p = subprocess.Popen(cmd, env=env.child_env({"VERIF_TIER": tier, "VERIF_SEED": str(env.seed())}),
                             cwd=str(env.ROOT), stdout=log, stderr=subprocess.STDOUT)
        procs.append((i, p, out, log))
    deadline = time.monotonic() + budget * scale * 4 + 300      # generous wall-clock watchdog: firing = inconclusive
    for i, p, out, log in procs:
        try:
            rc = p.wait(timeout=max(1.0, deadline - time.monotonic()))
        except subprocess.TimeoutExpired:
            p.kill()
            p.wait()
            ctx.mark_inconclusive(f"shard {i} exceeded the wall-clock watchdog")
            continue
        finally:
            log.close()
        if rc != 0 or not out.exists():
            tail = (work / f"shard{i}.log").read_text()[-800:]
            ctx.mark_inconclusive(f"shard {i} exited with {rc}: {tail}")
            continue
        ctx.absorb(json.loads(out.read_text()))
        tail = (work / f"shard{i}.log").read_text()
        if tail.strip() and os.environ.get("VERIF_VERBOSE"):
            sys.stderr.write(tail[-3000:])
    rc = finish(ctx, module, time.monotonic() - t0)
    if rc == 0 and not os.environ.get("VERIF_KEEP_WORK"):
        shutil.rmtree(work, ignore_errors=True)
    else:
        print(f"(shard logs kept in {work})")
    return rc


def run_replay(pid: str, path: Path) -> int:
    module = load_module(pid)
    body = json.loads(path.read_text())
    ctx = Ctx(pid, body.get("tier", "quick"), int(body.get("seed", 0)), replay_mode=True, budget_s=3600)
    err = env.assert_tree()
    if err:
        print(f"INCONCLUSIVE property={pid} {err}")
        return 2
    if not hasattr(module, "replay"):
        print(f"INCONCLUSIVE property={pid} no replay function")
        return 2
    if body["case"].get("kind") == "shard-crash":
        # re-run the whole shard that crashed inside the library
        c = body["case"]
        budget = getattr(module, "BUDGET", {}).get(c["tier"], 60)
        ctx = Ctx(pid, c["tier"], int(body.get("seed", 0)), c["shard"], c["nshards"], budget_s=budget, replay_mode=False)
        try:
            module.run(ctx)
        except Exception as exc:
            print(f"VIOLATION property={pid} replay={path}")
            print(f"  mechanism=library-raised-unexpectedly: {type(exc).__name__}: {exc}")
            return 1
    else:
        module.replay(ctx, body["case"])
    if ctx.violations:
        for v in ctx.violations:
            print(f"VIOLATION property={pid} replay={path}")
            print(f"  mechanism={v['mechanism']}: {v['message'][:600]}")
        return 1
    for mech, cnt in ctx.known_hits.items():
        print(f"KNOWN-FINDING: property={pid} {mech} (observed {cnt}x)")
    print(f"{pid}: replay of {path} did not violate the property on this tree")
    return 0


def main(argv=None) -> int:
    ap = argparse.ArgumentParser()
    ap.add_argument("pid")
    ap.add_argument("--tier", default=env.tier())
    ap.add_argument("--replay")
    ap.add_argument("--shard")
    ap.add_argument("--partial-out")
    a = ap.parse_args(argv)
    pid = a.pid.upper()
    if a.replay:
        return run_replay(pid, Path(a.replay))
    if a.shard:
        i, n = a.shard.split("/")
        return run_shard(pid, a.tier, int(i), int(n), Path(a.partial_out))
    return run_parent(pid, a.tier)


if __name__ == "__main__":
    sys.exit(main())

"""Shared workload machinery for the bound properties (C01, C02, C03, C04, C07, C08): cases, histories, and
the observation of the real game object after the real computer ran."""
from __future__ import annotations

import random
from typing import Iterable, Sequence

import numpy as np

from incomplete_cooperative.coalitions import Coalition

from . import gen, sut
from .refmodel import minimal_masks, popcount


def make_history(rng: random.Random, n: int, K: Sequence[int], kind: str) -> list[list]:
    """Operation list ending with exactly K known (values taken from the hidden game).

    kinds: fresh | walk | dirty (walk + garbage bulk bound writes into unknown rows before the final compute).
    Every state on the way contains the minimal information, so computes are always legal.
    """
    mini = sorted(minimal_masks(n))
    ex = gen.explorable(n)
    if kind == "fresh" or not ex:
        return [["set_known", list(K)]]
    ops: list[list] = []
    cur = set(gen.random_knowledge_set(rng, n))
    ops.append(["set_known", sorted(cur)])
    if rng.random() < 0.7:
        ops.append(["compute"])
        if rng.random() < 0.3:
            # bulk set right after a computation, without a reset (some already known, some new), then compute again
            sub = rng.sample(ex, rng.randint(1, min(len(ex), 3)))
            ops.append(["bulk_set", sorted(sub)])
            cur.update(sub)
            ops.append(["compute"])
    for _ in range(rng.randint(1, 3 * len(ex) if len(ex) < 8 else 16)):
        r = rng.random()
        m = rng.choice(ex)
        if r < 0.45:
            if m in cur:
                ops.append(["unreveal", m])
                cur.discard(m)
            else:
                ops.append(["reveal", m])
                cur.add(m)
        elif r < 0.75:
            ops.append(["compute"])
        elif r < 0.85:
            cur = set(gen.random_knowledge_set(rng, n))
            ops.append(["set_known", sorted(cur)])
        elif r < 0.90:
            if m in cur:
                ops.append(["unset", m])
                cur.discard(m)
            else:
                ops.append(["set", m])
                cur.add(m)
        elif r < 0.95:
            # bulk set (set_values on a subset, no reset): some already known, some new
            sub = rng.sample(ex, rng.randint(1, min(len(ex), 4)))
            ops.append(["bulk_set", sorted(sub)])
            cur.update(sub)
        else:
            ops.append(["compute"])
            ops.append(["compute"])
    target = set(K)
    fix = [m for m in ex if (m in cur) != (m in target)]
    rng.shuffle(fix)
    for m in fix:
        if m in cur:
            ops.append(["unreveal", m])
            cur.discard(m)
        else:
            ops.append(["reveal", m])
            cur.add(m)
        if rng.random() < 0.3:
            ops.append(["compute"])
    assert cur == target | set(mini), (cur, target)
    if kind == "dirty":
        ops.append(["garbage", rng.randint(0, 2**31)])
    return ops


def apply_ops(game, values: Sequence[float], ops: Iterable[list], on_compute=None) -> None:
    """Drive the real game object through the operations (public API only)."""
    for op in ops:
        k = op[0]
        if k == "set_known":
            sut.set_knowledge(game, values, op[1])
        elif k == "reveal":
            game.reveal_value(values[op[1]], Coalition(op[1]))
        elif k == "unreveal":
            game.unreveal_value(Coalition(op[1]))
        elif k == "set":
            game.set_value(values[op[1]], Coalition(op[1]))
        elif k == "unset":
            game.unset_value(Coalition(op[1]))
        elif k == "bulk_set":
            game.set_values(np.array([values[m] for m in op[1]], dtype=np.float64), [Coalition(m) for m in op[1]])
        elif k == "compute":
            game.compute_bounds()
            if on_compute is not None:
                on_compute(game)
        elif k == "garbage":
            r = np.random.default_rng(op[1])
            size = 2 ** game.number_of_players
            # bulk bound setters only touch unknown rows (C17); leaves arbitrary stale bounds behind
            game.set_lower_bounds(r.uniform(-1e3, 1e3, size))
            game.set_upper_bounds(r.uniform(-1e3, 1e3, size))
        else:
            raise KeyError(k)


def known_set_of(game) -> list[int]:
    return [int(i) for i in np.nonzero(np.array(game.are_values_known()))[0]]


def nondegenerate(known: np.ndarray, lo: np.ndarray, up: np.ndarray) -> bool:
    return bool(np.any((~known) & (lo < up)))


def pick_cases(ctx, n_values: Sequence[int], families: Sequence[str], sam: bool = False):
    """Endless stream of (n, family, values, exact) respecting the shard; caller stops on budget."""
    rng = ctx.rng
    while True:
        n = rng.choice(list(n_values))
        fam = rng.choice(list(families))
        values, exact = (gen.sam_game if sam else gen.sa_game)(rng, n, fam)
        if rng.random() < 0.15:
            # the same game in other units: a power of two keeps every value and every sum exactly representable
            k = rng.choice([-40, -20, 20, 40])
            values = [v * 2.0 ** k for v in values]
            fam = f"{fam}*2^{k}"
        yield n, fam, values, exact


def poison(ctx, n: int, computers) -> None:
    """A computation that FAILS (singletons unknown: outside the computers' domain) and is survived by the caller; it
    must leave no trace that influences the legal computations following in the same process."""
    rng = ctx.rng
    values, _ = gen.sa_game(rng, n, "int")
    ex = gen.explorable(n)
    for comp in computers:
        g = sut.new_game(n, comp)
        try:
            sut.set_knowledge(g, values, [0, (1 << n) - 1] + rng.sample(ex, min(2, len(ex))))
            g.compute_bounds()
        except Exception:
            pass
        ctx.count("poison_calls")

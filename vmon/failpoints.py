"""Fault injection for the crash property (C20).

* line-level failpoints: a forked child arms a sys.monitoring LINE callback and, at the k-th Python line event
  executed during the save, either SIGKILLs itself (death: user-space buffers are lost as in a real crash) or raises
  KeyboardInterrupt from the callback (interruption: with-blocks unwind and flush);
* system-call-level injection: a fresh interpreter under strace, restricted with -P to the results file and its
  temporary sibling, with `-e inject=<call>:signal=SIGKILL:when=<k>` or `:error=<errno>:when=<k>`.
"""
from __future__ import annotations

import os
import pickle
import signal
import subprocess
import sys
import time
from pathlib import Path

_THIS = __file__
_PURE = tuple(os.sep + "json" + os.sep + n for n in ("encoder.py", "decoder.py", "scanner.py"))


def _skip(fn: str) -> bool:
    return fn == _THIS or fn.endswith(_PURE)
TOOL = 4   # a free tool id (0 debugger, 1 coverage, 2 profiler, 5 optimizer are reserved names)


def _dir_state(d: str):
    out = []
    try:
        for name in sorted(os.listdir(d)):
            if not name.startswith("data.json"):
                continue
            try:
                st = os.stat(os.path.join(d, name))
                out.append((name, st.st_size, st.st_ino))
            except OSError:
                pass
    except OSError:
        pass
    return tuple(out)


def _arm(callback) -> None:
    mon = sys.monitoring
    mon.use_tool_id(TOOL, "vmon-failpoints")
    mon.register_callback(TOOL, mon.events.LINE, callback)
    mon.set_events(TOOL, mon.events.LINE)


def _disarm() -> None:
    mon = sys.monitoring
    mon.set_events(TOOL, 0)
    mon.register_callback(TOOL, mon.events.LINE, None)
    mon.free_tool_id(TOOL)


def count_events(action, watch_dir: str, result_file: str, timeout: float = 300.0):
    """Run `action()` in a forked child with a counting callback.

    Returns dict(K=number of line events, sites=[site id per event], table=[(file, line)], changes=[event indices at
    which the directory state (names, sizes, inodes) differed from the state at the previous event]) or None."""
    pid = os.fork()
    if pid == 0:
        try:
            sites: list[int] = []
            table: dict = {}
            changes: list[int] = []
            last = [_dir_state(watch_dir)]
            DISABLE = sys.monitoring.DISABLE

            def cb(code, lineno):
                fn = code.co_filename
                if _skip(fn):
                    return DISABLE
                key = (fn, lineno)
                sid = table.get(key)
                if sid is None:
                    sid = table[key] = len(table)
                st = _dir_state(watch_dir)
                if st != last[0]:
                    changes.append(len(sites))
                    last[0] = st
                sites.append(sid)
            _arm(cb)
            try:
                action()
            finally:
                _disarm()
            inv = [None] * len(table)
            for k, v in table.items():
                inv[v] = k
            with open(result_file, "wb") as f:
                pickle.dump({"K": len(sites), "sites": sites, "table": inv, "changes": changes}, f)
            os._exit(0)
        except BaseException:
            import traceback
            traceback.print_exc()
            os._exit(5)
    _, status = _wait(pid, timeout)
    if status is None or not os.WIFEXITED(status) or os.WEXITSTATUS(status) != 0:
        return None
    with open(result_file, "rb") as f:
        return pickle.load(f)


def _wait(pid: int, timeout: float):
    t0 = time.monotonic()
    while True:
        p, status = os.waitpid(pid, os.WNOHANG)
        if p == pid:
            return pid, status
        if time.monotonic() - t0 > timeout:
            os.kill(pid, signal.SIGKILL)
            os.waitpid(pid, 0)
            return pid, None
        time.sleep(0.0005)


def crash_at(action, k: int, mode: str, timeout: float = 120.0) -> str:
    """Fork; run action(); at the k-th line event (0-based) die ('kill') or raise KeyboardInterrupt ('interrupt').

    Returns 'killed' | 'interrupted' | 'completed' (event never reached) | 'error:<status>' | 'timeout'."""
    pid = os.fork()
    if pid == 0:
        try:
            n = [0]
            DISABLE = sys.monitoring.DISABLE

            def cb(code, lineno):
                if _skip(code.co_filename):
                    return DISABLE
                if n[0] == k:
                    n[0] += 1
                    if mode == "kill":
                        os.kill(os.getpid(), signal.SIGKILL)
                        time.sleep(10)
                    sys.monitoring.set_events(TOOL, 0)
                    raise KeyboardInterrupt("vmon failpoint")
                n[0] += 1
            _arm(cb)
            action()
            os._exit(0)
        except KeyboardInterrupt:
            os._exit(3)
        except BaseException:
            os._exit(4)
    _, status = _wait(pid, timeout)
    if status is None:
        return "timeout"
    if os.WIFSIGNALED(status):
        return "killed" if os.WTERMSIG(status) == signal.SIGKILL else f"error:signal{os.WTERMSIG(status)}"
    code = os.WEXITSTATUS(status)
    return {0: "completed", 3: "interrupted"}.get(code, f"error:exit{code}")


# --------------------------------------------------------------------------------------------------
# strace
# --------------------------------------------------------------------------------------------------

def strace_count(cmd: list[str], paths: list[str], env: dict, log: str, timeout: float = 300.0):
    """Run cmd under strace restricted to `paths`; return the ordered list of syscall names touching them."""
    args = ["strace", "-f", "-o", log]
    for p in paths:
        args += ["-P", p]
    r = subprocess.run(args + cmd, env=env, capture_output=True, text=True, timeout=timeout)
    calls = []
    for line in open(log):
        parts = line.split(None, 1)
        if len(parts) == 2 and "(" in parts[1] and not parts[1].startswith(("+++", "---")):
            calls.append(parts[1].split("(", 1)[0])
    return r.returncode, calls


def strace_inject(cmd: list[str], paths: list[str], env: dict, call: str, when: int, fault: str, log: str):
    """fault: 'signal=SIGKILL' or 'error=ENOSPC' ...; returns Popen (caller waits)."""
    args = ["strace", "-f", "-o", log]
    for p in paths:
        args += ["-P", p]
    args += ["-e", f"inject={call}:{fault}:when={when}"]
    return subprocess.Popen(args + cmd, env=env, stdout=subprocess.DEVNULL, stderr=subprocess.DEVNULL)

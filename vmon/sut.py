"""Adapters onto the real objects of the tree under test (the only place, with contracts.py and the property
modules, where the repository is imported)."""
from __future__ import annotations

from fractions import Fraction
from typing import Iterable, Sequence

import numpy as np

from incomplete_cooperative.bounds import BOUNDS
from incomplete_cooperative.coalitions import Coalition
from incomplete_cooperative.game import IncompleteCooperativeGame

from .refmodel import fr

SA_COMPUTERS = ("superadditive", "superadditive_cached")
SAM_COMPUTERS = ("sam_apx_1", "sam_apx_10", "sam_apx_100", "sam_apx_1000")


def computer(name_or_callable):
    return BOUNDS[name_or_callable] if isinstance(name_or_callable, str) else name_or_callable


def new_game(n: int, comp="superadditive") -> IncompleteCooperativeGame:
    return IncompleteCooperativeGame(n, computer(comp))


def full_game(values: Sequence[float], comp=None) -> IncompleteCooperativeGame:
    n = (len(values) - 1).bit_length()
    g = IncompleteCooperativeGame(n, computer(comp)) if comp is not None else IncompleteCooperativeGame(n)
    g.set_values(np.array(values, dtype=np.float64))
    return g


_ORDER = [0]


def set_knowledge(game: IncompleteCooperativeGame, values: Sequence[float], K: Iterable[int]) -> None:
    """Bulk reset to exactly K.  The coalitions are handed over in varying ORDER (ascending, descending, rotated): the
    result must not depend on it."""
    K = list(K)
    _ORDER[0] += 1
    mode = _ORDER[0] % 3
    if mode == 1:
        K = K[::-1]
    elif mode == 2 and len(K) > 2:
        cut = (_ORDER[0] * 7) % len(K)
        K = K[cut:] + K[:cut]
    game.set_known_values([values[m] for m in K], [Coalition(m) for m in K])


def table(game) -> tuple[np.ndarray, np.ndarray, np.ndarray]:
    """(known, lower, upper) copies, via public getters."""
    return (np.array(game.are_values_known(), dtype=bool).copy(),
            np.array(game.get_lower_bounds(), dtype=np.float64).copy(),
            np.array(game.get_upper_bounds(), dtype=np.float64).copy())


def table_bytes(game) -> bytes:
    k, lo, up = table(game)
    return k.tobytes() + lo.tobytes() + up.tobytes()


def known_dict(values: Sequence[float], K: Iterable[int]) -> dict[int, Fraction]:
    return {m: fr(values[m]) for m in K}


def gap_tol(n: int, scale: float) -> float:
    """Tolerance for gap / reward comparisons: RELATIVE to the magnitude of the game's values (no absolute floor, so
    that games expressed in tiny units are judged as strictly as ordinary ones)."""
    return 1e-9 * max(float(scale), 1e-300) * (1 << n)


SCALES = (1.0, 1.0, 1.0, 1.0, 1e-10, 1e-7, 1e-3, 1e3, 1e6)


def ulp_slack(n: int, scale: float, factor: float = 64.0) -> float:
    return factor * np.finfo(np.float64).eps * max(1, n) * max(scale, 1e-300)


# --------------------------------------------------------------------------------------------------
# long-lived game objects shared between cases (bulk reset to ANOTHER hidden game is part of "any history")
# --------------------------------------------------------------------------------------------------
_POOL: dict = {}


def object_for_case(ctx, case: dict, comp, key=None, p_reuse: float = 0.5):
    """Return a real game object for this case.

    With probability p_reuse the object is one that earlier cases (other hidden games, other knowledge sets) already
    used with the same computer; the case then records those earlier (values, K) pairs under case['prior'] so that a
    replay can rebuild the same history on a fresh object.  Every case starts with a bulk reset (set_known_values)."""
    n = case["n"]
    k = (n, key if key is not None else (comp if isinstance(comp, str) else repr(comp)))
    if ctx.replay_mode:
        g = new_game(n, comp)
        for vals, K in case.get("prior", []):
            set_knowledge(g, vals, K)
            try:
                g.compute_bounds()
            except AssertionError:
                pass
        return g
    entry = _POOL.get(k)
    if entry is not None and ctx.rng.random() < p_reuse:
        g, hist = entry
        case["prior"] = [(list(v), list(K)) for v, K in hist]
        ctx.count("cases_on_reused_object")
    else:
        g, hist = new_game(n, comp), []
        _POOL[k] = (g, hist)
        case["prior"] = []
    hist.append((list(case["values"]), sorted(case.get("K", []))))
    del hist[:-3]
    return g

"""Independent reference models (trusted base).

Nothing in this file imports the repository under test.  Coalitions are bit masks over the players,
games are sequences indexed by mask, arithmetic is exact (``fractions.Fraction``) unless a function says
otherwise.  Every function is written from the mathematics in the property statements.
"""
from __future__ import annotations

from fractions import Fraction
from functools import lru_cache
from itertools import permutations
from math import comb, factorial
from typing import Iterable, Sequence

F = Fraction


def fr(x) -> Fraction:
    """Exact rational value of a float / int (floats are dyadic rationals)."""
    return x if isinstance(x, Fraction) else Fraction(x)


def popcount(m: int) -> int:
    return bin(m).count("1")


def members(m: int) -> list[int]:
    out, i = [], 0
    while m:
        if m & 1:
            out.append(i)
        m >>= 1
        i += 1
    return out


def proper_submasks(m: int) -> Iterable[int]:
    """All non-empty proper sub-masks of m."""
    s = (m - 1) & m
    while s:
        yield s
        s = (s - 1) & m


def submasks(m: int) -> Iterable[int]:
    """All sub-masks of m including 0 and m."""
    s = m
    while True:
        yield s
        if s == 0:
            return
        s = (s - 1) & m


def supermasks(m: int, n: int) -> Iterable[int]:
    """All super-masks of m within n players, including m."""
    full = (1 << n) - 1
    rest = full ^ m
    for s in submasks(rest):
        yield m | s


def minimal_masks(n: int) -> set[int]:
    return {0, (1 << n) - 1} | {1 << i for i in range(n)}


# --------------------------------------------------------------------------------------------------
# superadditive bounds (C01, C02, C03, C07, C08, C09, C11, C12, C13)
# --------------------------------------------------------------------------------------------------

def ref_lower(n: int, known: dict[int, Fraction]) -> list[Fraction]:
    """lower(S) = best total of a partition of S into known coalitions (v(S) itself if S is known)."""
    size = 1 << n
    low: list = [None] * size
    low[0] = known.get(0, F(0))
    for s in sorted(range(1, size), key=popcount):
        if s in known:
            low[s] = known[s]
            continue
        best = None
        lowbit = s & -s
        for t in proper_submasks(s):
            if not t & lowbit:      # each unordered split once
                continue
            a, b = low[t], low[s ^ t]
            if a is None or b is None:
                continue
            c = a + b
            if best is None or c > best:
                best = c
        low[s] = best
    return low


def ref_upper(n: int, known: dict[int, Fraction], low: Sequence[Fraction]) -> list[Fraction]:
    """upper(S) = min over known T strictly containing S of v(T) - lower(T \\ S)."""
    size = 1 << n
    up: list = [None] * size
    for s in range(size):
        if s in known:
            up[s] = known[s]
            continue
        best = None
        for t in supermasks(s, n):
            if t == s or t not in known:
                continue
            c = known[t] - low[t ^ s]
            if best is None or c < best:
                best = c
        up[s] = best
    return up


def ref_bounds(n: int, known: dict[int, Fraction]) -> tuple[list[Fraction], list[Fraction]]:
    low = ref_lower(n, known)
    return low, ref_upper(n, known, low)


def is_superadditive_exact(n: int, v: Sequence) -> tuple[int, int] | None:
    """Return a violating disjoint pair (A, B) or None. Exact comparison."""
    size = 1 << n
    for u in range(1, size):
        lowbit = u & -u
        for a in proper_submasks(u):
            if not a & lowbit:
                continue
            if v[a] + v[u ^ a] > v[u]:
                return a, u ^ a
    return None


def is_superadditive_tol(n: int, v: Sequence[float], rtol: float = 1e-9) -> tuple[int, int] | None:
    """Superadditivity with the library's documented relative slack: lhs <= rhs or |lhs-rhs| <= rtol*|rhs|."""
    size = 1 << n
    for u in range(size):
        for a in submasks(u):
            lhs = v[a] + v[u ^ a]
            if not (lhs <= v[u] or abs(lhs - v[u]) <= rtol * abs(v[u])):
                return a, u ^ a
    return None


def is_monotone_nonincreasing(n: int, v: Sequence) -> tuple[int, int] | None:
    """v(A) >= v(B) for A subset of B. Return violating (A, B) or None."""
    size = 1 << n
    for b in range(size):
        for i in members(b):
            a = b ^ (1 << i)
            if v[a] < v[b]:
                return a, b
    return None


def certificate_lower_is_completion(n: int, known: dict[int, Fraction], low: Sequence[Fraction]) -> str | None:
    """(a) the lower game is a superadditive game agreeing with the known values."""
    for s, val in known.items():
        if low[s] != val:
            return f"lower game differs from known value at {s}"
    bad = is_superadditive_exact(n, low)
    if bad is not None:
        return f"lower game not superadditive at {bad}"
    return None


def certificate_upper_attained(n: int, known: dict[int, Fraction], s: int, upper_s: Fraction) -> str | None:
    """(b) a superadditive completion agreeing with K attains upper(S) at S.

    The completion is the max-partition closure of K extended by S -> upper(S).
    """
    ext = dict(known)
    ext[s] = upper_s
    low = ref_lower(n, ext)
    # closure must not lift any known value (consistency), must agree with K and S
    size = 1 << n
    for t in range(size):
        best = None
        lowbit = t & -t
        for a in proper_submasks(t):
            if not a & lowbit:
                continue
            c = low[a] + low[t ^ a]
            if best is None or c > best:
                best = c
        if best is not None and best > low[t]:
            return f"extended closure not superadditive at {t}"
    for t, val in known.items():
        if low[t] != val:
            return f"extended closure differs from K at {t}"
    if low[s] != upper_s:
        return "extended closure does not attain the upper bound"
    return None


# --------------------------------------------------------------------------------------------------
# Shapley value, gaps (C05, C06, C07, C09)
# --------------------------------------------------------------------------------------------------

def ref_shapley_perm(n: int, v: Sequence[Fraction]) -> list[Fraction]:
    """Average marginal contribution over all n! orderings (the definition)."""
    tot = [F(0)] * n
    for order in permutations(range(n)):
        m = 0
        for p in order:
            tot[p] += v[m | (1 << p)] - v[m]
            m |= 1 << p
    nf = factorial(n)
    return [t / nf for t in tot]


def ref_shapley_subset(n: int, v: Sequence[Fraction]) -> list[Fraction]:
    """Subset formula; validated against ref_shapley_perm for small n by the C06 check itself."""
    nf = factorial(n)
    out = []
    for i in range(n):
        bit = 1 << i
        tot = F(0)
        for s in range(1 << n):
            if s & bit:
                continue
            k = popcount(s)
            tot += F(factorial(k) * factorial(n - k - 1), nf) * (v[s | bit] - v[s])
        out.append(tot)
    return out


def ref_gap_exploitability(n: int, low: Sequence[Fraction], up: Sequence[Fraction]) -> Fraction:
    """sum_S (u - l) / C(n, |S|)."""
    return sum((fr(up[s]) - fr(low[s])) / comb(n, popcount(s)) for s in range(1 << n))


def ref_widths(low, up):
    return [fr(u) - fr(l) for l, u in zip(low, up)]


def ref_gap_l1(low, up) -> Fraction:
    return sum(abs(w) for w in ref_widths(low, up))


def ref_gap_linf(low, up) -> Fraction:
    return max(abs(w) for w in ref_widths(low, up))


def ref_gap_l2sq(low, up) -> Fraction:
    """Square of the l2 norm (exact)."""
    return sum(w * w for w in ref_widths(low, up))


def ref_gap_float(kind: str, n: int, low, up) -> float:
    """Gap value as a float (for comparison with the float result, tolerance applied by the caller)."""
    if kind == "exploitability":
        return float(ref_gap_exploitability(n, low, up))
    if kind == "l1_norm":
        return float(ref_gap_l1(low, up))
    if kind == "linf_norm":
        return float(ref_gap_linf(low, up))
    if kind == "l2_norm":
        from math import sqrt
        q = ref_gap_l2sq(low, up)
        return sqrt(float(q))
    raise KeyError(kind)


# --------------------------------------------------------------------------------------------------
# normalisation (C09, C15)
# --------------------------------------------------------------------------------------------------

def ref_normalize(n: int, v: Sequence[Fraction]) -> tuple[list[Fraction] | None, Fraction]:
    """(v(S) - sum_{i in S} v(i)) / s  with s = v(N) - sum_i v(i); None if s == 0 (additive)."""
    singles = [fr(v[1 << i]) for i in range(n)]
    zero = []
    for s in range(1 << n):
        zero.append(fr(v[s]) - sum(singles[i] for i in members(s)))
    surplus = zero[-1]
    if surplus == 0:
        return None, surplus
    return [z / surplus for z in zero], surplus


# --------------------------------------------------------------------------------------------------
# finite-set model for coalitions (C18)
# --------------------------------------------------------------------------------------------------

def fset(m: int) -> frozenset[int]:
    return frozenset(members(m))


def fmask(s: Iterable[int]) -> int:
    r = 0
    for p in set(s):
        r |= 1 << p
    return r


@lru_cache(maxsize=None)
def all_subsets_of(m: int) -> frozenset[int]:
    return frozenset(submasks(m))

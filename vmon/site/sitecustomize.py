"""Switches the vmon contracts on inside child interpreters (e.g. the repository's own pytest run).

Active only when the guard variable and VMON_CONTRACTS are set; the repository never reads either."""
import os

if os.environ.get("FURADNIK_INCOMPLETECOOPERATIVE_VERIF") == "1" and os.environ.get("VMON_CONTRACTS"):
    try:
        from vmon import contracts
        contracts.install(tuple(os.environ["VMON_CONTRACTS"].split(",")))
    except Exception as exc:  # never break the interpreter start-up
        import sys
        print(f"vmon sitecustomize: contracts not installed: {exc!r}", file=sys.stderr)

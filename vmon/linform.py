"""A tiny symbolic number: linear forms  c0 + sum_k c_k * x_k  with float coefficients.

Feeding these through the real Shapley / exploitability code records, in ONE execution, the coefficient the code
applies to every input variable; the code under observation contains no data-dependent branch on them (any comparison
or non-linear use raises TypeError, which the caller reports), so for a fixed player count the observed form decides
the identity for ALL real inputs (up to the float coefficients the code itself forms).
"""
from __future__ import annotations

import numbers

import numpy as np


def _scalar(x):
    if isinstance(x, (bool, np.bool_)):
        return float(bool(x))
    if isinstance(x, (numbers.Real, np.integer, np.floating)):
        return float(x)
    return None


class Lin:
    __slots__ = ("c", "k")
    __array_priority__ = 1000

    def __init__(self, coeffs=None, const=0.0):
        self.c = dict(coeffs or {})
        self.k = float(const)

    @staticmethod
    def var(name):
        return Lin({name: 1.0})

    def _lift(self, o):
        if isinstance(o, Lin):
            return o
        s = _scalar(o)
        if s is None:
            return None
        return Lin(None, s)

    def __add__(self, o):
        o = self._lift(o)
        if o is None:
            return NotImplemented
        c = dict(self.c)
        for n, v in o.c.items():
            c[n] = c.get(n, 0.0) + v
        return Lin(c, self.k + o.k)
    __radd__ = __add__

    def __neg__(self):
        return Lin({n: -v for n, v in self.c.items()}, -self.k)

    def __sub__(self, o):
        o = self._lift(o)
        if o is None:
            return NotImplemented
        return self + (-o)

    def __rsub__(self, o):
        o = self._lift(o)
        if o is None:
            return NotImplemented
        return o + (-self)

    def __mul__(self, o):
        s = _scalar(o)
        if s is None:
            if isinstance(o, Lin) and not o.c:
                s = o.k
            elif isinstance(o, Lin) and not self.c:
                return o * self.k
            else:
                raise TypeError("non-linear use of a symbolic value")
        return Lin({n: v * s for n, v in self.c.items()}, self.k * s)
    __rmul__ = __mul__

    def __truediv__(self, o):
        s = _scalar(o)
        if s is None:
            raise TypeError("division of a symbolic value by a non-scalar")
        return Lin({n: v / s for n, v in self.c.items()}, self.k / s)

    def _no(self, *a):
        raise TypeError("data-dependent branch on a symbolic value")
    __lt__ = __le__ = __gt__ = __ge__ = __bool__ = _no

    def __eq__(self, o):
        raise TypeError("comparison of a symbolic value")

    __hash__ = None

    def __repr__(self):
        return "Lin(" + " + ".join(f"{v:g}*{n}" for n, v in sorted(self.c.items())) + f" + {self.k:g})"

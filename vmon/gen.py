"""Workload generators: games, knowledge sets, histories.  No repository imports (games are plain lists)."""
from __future__ import annotations

import random
from fractions import Fraction
from typing import Iterable

from .refmodel import members, minimal_masks, popcount, proper_submasks

# families whose values are such that every sum the library forms is exactly representable in float64
EXACT_SA_FAMILIES = ("int", "int_neg", "dyadic8", "grid20", "convex_int", "addsur_int", "addsur_big_int")
FLOAT_SA_FAMILIES = ("float", "near_additive")
SA_FAMILIES = EXACT_SA_FAMILIES + FLOAT_SA_FAMILIES


def _closure_max(n: int, w: list) -> list:
    """Superadditive closure: v(S) = max over partitions of S of the sum of w (w(empty) = 0)."""
    v = list(w)
    v[0] = 0
    for s in sorted(range(1, 1 << n), key=popcount):
        best = v[s]
        lowbit = s & -s
        for t in proper_submasks(s):
            if t & lowbit:
                c = v[t] + v[s ^ t]
                if c > best:
                    best = c
        v[s] = best
    return v


def _closure_min(n: int, w: list) -> list:
    v = list(w)
    v[0] = 0
    for s in sorted(range(1, 1 << n), key=popcount):
        best = v[s]
        lowbit = s & -s
        for t in proper_submasks(s):
            if t & lowbit:
                c = v[t] + v[s ^ t]
                if c < best:
                    best = c
        v[s] = best
    return v


def sa_game(rng: random.Random, n: int, family: str) -> tuple[list[float], bool]:
    """Return (values indexed by mask, exact?) of a superadditive game. v(empty) = 0.

    Exact families are superadditive in real arithmetic and all partial sums are representable.
    """
    size = 1 << n
    if family == "int":
        w = [rng.randint(-3, 12) for _ in range(size)]
        v = _closure_max(n, w)
    elif family == "int_neg":
        w = [rng.randint(-40, -1) for _ in range(size)]
        v = _closure_max(n, w)
    elif family == "dyadic8":
        w = [Fraction(rng.randint(-24, 80), 8) for _ in range(size)]
        v = _closure_max(n, w)
    elif family == "grid20":
        w = [Fraction(rng.randint(-(2**24), 2**26), 2**20) for _ in range(size)]
        v = _closure_max(n, w)
    elif family == "convex_int":
        q = rng.choice([2, 3])
        wt = [rng.randint(0, 4) for _ in range(n)]
        v = [sum(wt[i] for i in members(s)) ** q for s in range(size)]
    elif family == "addsur_int":
        wt = [rng.randint(-5, 9) for _ in range(n)]
        sur = _closure_max(n, [rng.randint(0, 3) if popcount(s) > 1 else 0 for s in range(size)])
        v = [sum(wt[i] for i in members(s)) + sur[s] for s in range(size)]
    elif family == "addsur_big_int":
        # huge stand-alone values, tiny surplus: relative-tolerance shortcuts (allclose / isclose) see "equal" numbers
        wt = [rng.choice([-1, 1]) * rng.randint(10**6, 10**7) for _ in range(n)]
        sur = _closure_max(n, [rng.randint(0, 3) if popcount(s) > 1 else 0 for s in range(size)])
        v = [sum(wt[i] for i in members(s)) + sur[s] for s in range(size)]
    elif family == "float":
        w = [rng.uniform(-3, 10) for _ in range(size)]
        v = _closure_max(n, w)                      # float closure: superadditive up to rounding only
    elif family == "near_additive":
        wt = [rng.uniform(-2, 5) for _ in range(n)]
        k = rng.randint(1, 30)
        sur = _closure_max(n, [rng.random() * 2.0 ** -k if popcount(s) > 1 else 0.0 for s in range(size)])
        v = [sum(wt[i] for i in members(s)) + sur[s] for s in range(size)]
    else:
        raise KeyError(family)
    v[0] = 0
    return [float(x) for x in v], family in EXACT_SA_FAMILIES


EXACT_SAM_FAMILIES = ("sam_int", "sam_dyadic", "sam_budget", "sam_cover", "sam_offset_int")
FLOAT_SAM_FAMILIES = ("sam_float",)
SAM_FAMILIES = EXACT_SAM_FAMILIES + FLOAT_SAM_FAMILIES


def sam_game(rng: random.Random, n: int, family: str) -> tuple[list[float], bool]:
    """Superadditive and monotone non-increasing game: minus a monotone subadditive non-negative function."""
    size = 1 << n
    if family in ("sam_int", "sam_dyadic", "sam_float"):
        if family == "sam_int":
            w = [rng.randint(1, 20) for _ in range(size)]
        elif family == "sam_dyadic":
            w = [Fraction(rng.randint(1, 160), 8) for _ in range(size)]
        else:
            w = [rng.uniform(0.1, 20) for _ in range(size)]
        w[0] = 0
        # monotone hull: m(S) = max over subsets
        m = list(w)
        for s in sorted(range(size), key=popcount):
            for i in members(s):
                if m[s ^ (1 << i)] > m[s]:
                    m[s] = m[s ^ (1 << i)]
        f = _closure_min(n, m)
    elif family == "sam_offset_int":
        # huge common cost plus small integer differences: |v| ~ 1e7 times the interval widths
        w = [rng.randint(1, 20) for _ in range(size)]
        w[0] = 0
        m = list(w)
        for s in sorted(range(size), key=popcount):
            for i in members(s):
                if m[s ^ (1 << i)] > m[s]:
                    m[s] = m[s ^ (1 << i)]
        base = rng.choice([10**6, 10**7])
        f = [0] + [base + x for x in _closure_min(n, m)[1:]]
        f = _closure_min(n, f)
    elif family == "sam_budget":
        k = rng.randint(1, n)
        f = [min(k, popcount(s)) for s in range(size)]
    elif family == "sam_cover":
        uni = 2 * n
        sets = [set(rng.sample(range(uni), rng.randint(1, uni))) for _ in range(n)]
        f = [len(set().union(*[sets[i] for i in members(s)])) if s else 0 for s in range(size)]
    else:
        raise KeyError(family)
    v = [-float(x) if x else 0.0 for x in f]
    v[0] = 0.0
    return v, family in EXACT_SAM_FAMILIES


# --------------------------------------------------------------------------------------------------
# knowledge sets
# --------------------------------------------------------------------------------------------------

def explorable(n: int) -> list[int]:
    """Masks that are not part of the minimal information, ascending."""
    mini = minimal_masks(n)
    return [m for m in range(1 << n) if m not in mini]


def all_knowledge_sets(n: int) -> Iterable[list[int]]:
    """All supersets of the minimal information (2^(2^n-n-2) of them)."""
    ex = explorable(n)
    mini = sorted(minimal_masks(n))
    for bits in range(1 << len(ex)):
        yield mini + [ex[i] for i in range(len(ex)) if bits >> i & 1]


def random_knowledge_set(rng: random.Random, n: int) -> list[int]:
    ex = explorable(n)
    mini = sorted(minimal_masks(n))
    style = rng.random()
    if style < 0.55:
        p = rng.choice([0.0, 0.1, 0.25, 0.5, 0.75, 0.9, 1.0])
        extra = [m for m in ex if rng.random() < p]
    elif style < 0.7:      # all of one size
        k = rng.randint(2, max(2, n - 1))
        extra = [m for m in ex if popcount(m) == k]
    elif style < 0.85:     # a chain
        order = list(range(n))
        rng.shuffle(order)
        extra, m = [], 0
        for p in order:
            m |= 1 << p
            if m in ex:
                extra.append(m)
    else:                  # a few
        extra = rng.sample(ex, min(len(ex), rng.randint(1, 3)))
    return mini + sorted(set(extra))


def euler_walk(n: int, rng: random.Random | None = None) -> list[int]:
    """A closed walk over the lattice of knowledge sets (hypercube over the explorable coalitions) that
    traverses every edge in both directions; returned as the list of toggled coalition masks.
    Start and end: nothing explorable known.  (Hierholzer on the doubled graph.)"""
    ex = explorable(n)
    d = len(ex)
    if d == 0:
        return []
    # directed edges: (node, dim) for every node and dim; next unused dim per node
    nxt = [0] * (1 << d)
    orders = None
    if rng is not None:
        orders = {}
    stack = [(0, None)]
    circuit: list[int] = []
    while stack:
        node, via = stack[-1]
        if nxt[node] < d:
            k = nxt[node]
            nxt[node] += 1
            if orders is not None:
                if node not in orders:
                    o = list(range(d))
                    rng.shuffle(o)
                    orders[node] = o
                k = orders[node][k]
            stack.append((node ^ (1 << k), k))
        else:
            stack.pop()
            if via is not None:
                circuit.append(via)
    circuit.reverse()
    return [ex[k] for k in circuit]

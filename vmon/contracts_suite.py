"""Run the repository's own tests as workloads for the vmon contracts (thorough tier)."""
from __future__ import annotations

import json
import os
import subprocess
import tempfile
from pathlib import Path

from . import env as venv


def run_repo_tests(ctx, files: list[str], which: str, timeout: float = 1500.0) -> None:
    """pytest on `files` (relative to the tree) in a child interpreter whose sitecustomize installs the contracts.

    Only contract violations are verdicts; ordinary test failures are the test-suite's business (counted)."""
    tests = [str(venv.REPO / f) for f in files if (venv.REPO / f).exists()]
    if not tests:
        ctx.count("repo_test_files_missing")
        return
    fd, log = tempfile.mkstemp(prefix="vmon-contracts-", suffix=".jsonl")
    os.close(fd)
    e = venv.child_env({"VMON_CONTRACTS": which, "VMON_CONTRACT_LOG": log})
    e["PYTHONPATH"] = os.pathsep.join([str(venv.ROOT / "vmon" / "site"), e["PYTHONPATH"]])
    try:
        r = subprocess.run([venv.PYTHON, "-m", "pytest", "-q", "-p", "no:cacheprovider", "--timeout=900", *tests],
                           cwd=str(venv.REPO), env=e, capture_output=True, text=True, timeout=timeout)
    except subprocess.TimeoutExpired:
        ctx.count("repo_test_runs_timed_out")
        os.unlink(log)
        return
    tail = (r.stdout or "").strip().splitlines()[-1:] or [""]
    ctx.count("repo_test_runs")
    ctx.seen("repo_test_summaries", f"{','.join(Path(f).name for f in files)}: {tail[0][:120]}")
    stats_total = 0
    seen = set()
    for line in open(log):
        try:
            rec = json.loads(line)
        except ValueError:
            continue
        if rec["kind"] == "stats":
            for k, v in rec["stats"].items():
                ctx.count(f"repo_tests_{k}", v)
                stats_total += v
        elif rec["kind"] == "violation":
            key = rec["contract"]
            if key in seen:
                continue
            seen.add(key)
            mech = "contract-broken-in-repo-tests:" + key.split(":")[0].replace(" ", "-")
            ctx.violation(mech, f"{rec['contract']} :: {rec['detail'][:500]} (while running {files} with contracts {which})",
                          {"kind": "repo-tests", "files": files, "contracts": which})
    os.unlink(log)
    ctx.count("contract_evaluations_in_repo_tests", stats_total)
    ctx.case(("repo-tests", tuple(files), which), stats_total > 0,
             sample={"repo_tests": files, "contracts": which, "pytest_summary": tail[0][:200], "contract_evaluations": stats_total})

"""Run the repository's own tests as workloads for the vmon contracts (thorough tier)."""
from __future__ import annotations

import json
import os
import subprocess
import tempfile
from pathlib import Path

from . import env as venv


def run_repo_tests(ctx, files: list[str], which: str, timeout: float = 1500.0) -> None:
    """pytest on `files` (relative to the tree) in a child interpreter whose sitecustomize installs the contracts.

    Only contract violations are verdicts; ordinary test failures are the test-suite's business (counted)."""
    tests = [str(venv.REPO / f) for f in files if (venv.REPO / f).exists()]
    if not tests:
        ctx.count("repo_test_files_missing")
        return
    fd, log = tempfile.mkstemp(prefix="vmon-contracts-", suffix=".jsonl")
    os.close(fd)
    e = venv.child_env({"VMON_CONTRACTS": which, "VMON_CONTRACT_LOG": log})
    e["PYTHONPATH"] = os.pathsep.join([str(venv.ROOT / "vmon" / "site"), e["PYTHONPATH"]])
    try:
        r = subprocess.run([venv.PYTHON, "-m", "pytest", "-q", "-p", "no:cacheprovider", "--timeout=900", *tests],
                           cwd=str(venv.REPO), env=e, capture_output=True, text=True, timeout=timeout)
    except subprocess.TimeoutExpired:
        ctx.count("repo_test_runs_timed_out")
        os.unlink(log)
        return
    tail = (r.stdout or "").strip().splitlines()[-1:] or [""]
    ctx.count("repo_test_runs")
    ctx.seen("repo_test_summaries", f"{','.join(Path(f).name for f in files)}: {tail[0][:120]}")
    stats_total = 0
    seen = set()
    for line in open(log):
        try:
            rec = json.loads(line)
        except ValueError:
            continue
        if rec["kind"] == "stats":
            for k, v in rec["stats"].items():
                ctx.count(f"repo_tests_{k}", v)
                stats_total += v
        elif rec["kind"] == "violation":
            key = rec["contract"]
            if key in seen:
                continue
            seen.add(key)
            mech = "contract-broken-in-repo-tests:" + key.split(":")[0].replace(" ", "-")
            ctx.violation(mech, f"{rec['contract']} :: {rec['detail'][:500]} (while running {files} with contracts {which})",
                          {"kind": "repo-tests", "files": files, "contracts": which})
    os.unlink(log)
    ctx.count("contract_evaluations_in_repo_tests", stats_total)
    ctx.case(("repo-tests", tuple(files), which), stats_total > 0,
             sample={"repo_tests": files, "contracts": which, "pytest_summary": tail[0][:200], "contract_evaluations": stats_total})


def run_cli_under_contracts(ctx, commands: list[list[str]], which: str = "compute,env,solvers", timeout: float = 600.0) -> None:
    """Real command lines (`python -m incomplete_cooperative ...`) in child interpreters with the contracts switched on.

    Only contract violations are verdicts."""
    import shutil
    base = tempfile.mkdtemp(prefix="vmon-cli-contracts-")
    try:
        for i, args in enumerate(commands):
            log = os.path.join(base, f"log{i}.jsonl")
            e = venv.child_env({"VMON_CONTRACTS": which, "VMON_CONTRACT_LOG": log})
            e["PYTHONPATH"] = os.pathsep.join([str(venv.ROOT / "vmon" / "site"), e["PYTHONPATH"]])
            cmd = [venv.PYTHON, "-c", "import sys; from incomplete_cooperative.__main__ import main, get_argument_parser; "
                   "main(get_argument_parser(), ['prog'] + sys.argv[1:])", "--model-dir", os.path.join(base, f"out{i}"), *args]
            try:
                r = subprocess.run(cmd, cwd=base, env=e, capture_output=True, text=True, timeout=timeout)
            except subprocess.TimeoutExpired:
                ctx.count("cli_contract_runs_timed_out")
                continue
            ctx.count("cli_contract_runs")
            total = 0
            if os.path.exists(log):
                for line in open(log):
                    try:
                        rec = json.loads(line)
                    except ValueError:
                        continue
                    if rec["kind"] == "stats":
                        total += sum(rec["stats"].values())
                        for k, v in rec["stats"].items():
                            ctx.count(f"cli_{k}", v)
                    elif rec["kind"] == "violation":
                        ctx.violation("contract-broken-in-cli-run:" + rec["contract"].split(":")[0].replace(" ", "-"),
                                      f"{rec['contract']} :: {rec['detail'][:400]} (command: {' '.join(args)})",
                                      {"kind": "cli-contracts", "args": args, "contracts": which})
            ctx.count("contract_evaluations_in_cli_runs", total)
            ctx.case(("cli-contracts", tuple(args)), total > 0,
                     sample={"cli": " ".join(args), "contracts": which, "exit": r.returncode, "contract_evaluations": total} if i == 0 else None)
    finally:
        shutil.rmtree(base, ignore_errors=True)

#!/bin/bash
# Install the contract libraries (icontract, deal) and jsonschema next to the repository's interpreter, offline.
set -e
HERE="$(cd "$(dirname "${BASH_SOURCE[0]}")" && pwd)"
cd "$HERE"
exec 9>"$HERE/.deps.lock"
flock 9
if [ ! -f .deps/.ok ]; then
  rm -rf .deps
  PIP_NO_INDEX=1 /venv/bin/pip install -q --no-index --find-links /opt/veriftools/wheels --target "$HERE/.deps" icontract deal jsonschema
  /venv/bin/python -c "import sys; sys.path.insert(0, '$HERE/.deps'); import icontract, deal, jsonschema"
  touch .deps/.ok
fi
